#!/bin/bash
# tools/try_mutant.sh <mutant-dir> <check-id>...   apply patch.diff to /repo, run the checks (quick), revert.
D=$1; shift
cd /repo || exit 2
if [ -n "$(git status --porcelain)" ]; then echo "REFUSING: /repo has uncommitted changes (they would be lost by the clean-up reset)"; exit 4; fi
if ! git apply --check "$D/patch.diff" 2>/dev/null; then
  if ! git apply --3way "$D/patch.diff" 2>/dev/null; then echo "PATCH DOES NOT APPLY: $D"; git reset -q --hard HEAD; exit 3; fi
  git reset -q
else
  git apply "$D/patch.diff"
fi
git diff --stat | tail -1
for c in "$@"; do
  out=$(cd /verif && ./run $c --tier ${TIER:-quick} 2>&1 | grep -v conda)
  nv=$(echo "$out" | grep -c '^VIOLATION')
  echo "  $c: $(echo "$out" | tail -1)"
  echo "$out" | grep '^VIOLATION' | head -3 | sed 's/^/     /'
done
git reset -q --hard HEAD
git status --short | head -3
