#!/venv/bin/python
"""
Dev-time: run every seeded change under /verif/seeded/<id>/ against the checks that are expected to catch it
(meta.json "verif.checks", default: the check of the property it breaks), record the outcome in meta.json and write
seeded/RESULTS.md.  Applies each patch to /repo, runs, and reverts (git reset --hard HEAD) straight afterwards.
Never run while another check is using /repo.
"""
import json, subprocess, sys, os, glob

ROOT = "/verif"
if subprocess.run("git -C /repo status --porcelain", shell=True, capture_output=True, text=True).stdout.strip():
    sys.exit("REFUSING: /repo has uncommitted changes (they would be lost by the clean-up reset)")
only = sys.argv[1:]
rows = []
for d in sorted(glob.glob(f"{ROOT}/seeded/*/")):
    sid = os.path.basename(d.rstrip("/"))
    if only and sid not in only:
        meta = json.load(open(d + "meta.json"))
        if "verif" in meta:
            rows.append((sid, meta))
        continue
    meta = json.load(open(d + "meta.json"))
    prop = meta.get("property", sid.split("-")[0])
    checks = meta.get("verif", {}).get("checks") or [prop]
    subprocess.run("git -C /repo reset -q --hard HEAD", shell=True)
    r = subprocess.run(f"git -C /repo apply {d}patch.diff", shell=True, capture_output=True, text=True)
    if r.returncode != 0:
        meta["verif"] = dict(checks=checks, applies=False, note=r.stderr[-200:])
        json.dump(meta, open(d + "meta.json", "w"), indent=1)
        rows.append((sid, meta))
        continue
    # does the change still break the property on the current tree? (later repairs can neutralise a seeded change)
    demo = subprocess.run(f"cd /tmp && PYTHONPATH=/repo/pdks/Sky130:/repo/pdks/Gf180:/repo/pdks/Asap7 timeout 600 /venv/bin/python -W ignore {d}demo.py", shell=True, capture_output=True, text=True)
    res = {}
    for c in checks:
        out = subprocess.run(f"cd {ROOT} && ./run {c} --tier quick", shell=True, capture_output=True, text=True).stdout
        viol = [l for l in out.splitlines() if l.startswith("VIOLATION")]
        last = [l for l in out.splitlines() if l.startswith("[")][-1:] or [""]
        res[c] = dict(detected=bool(viol), violations_reported=len(viol), first=(viol[0].split("#")[-1].strip() if viol else ""), summary=last[0])
    subprocess.run("git -C /repo reset -q --hard HEAD", shell=True)
    meta["verif"] = dict(checks=checks, applies=True, results=res, caught_by=[c for c, v in res.items() if v["detected"]], demo_exit_with_patch=demo.returncode,
                         demo_tail=(demo.stdout + demo.stderr).strip().splitlines()[-1][:200] if (demo.stdout + demo.stderr).strip() else "")
    if meta.get("verif_note"):
        meta["verif"]["note"] = meta["verif_note"]
    json.dump(meta, open(d + "meta.json", "w"), indent=1)
    rows.append((sid, meta))
    print(sid, meta["verif"]["caught_by"] or ("ineffective on the current tree (its demo passes with the patch applied)" if demo.returncode == 0 else "MISSED"), flush=True)

with open(f"{ROOT}/seeded/RESULTS.md", "w") as f:
    f.write("# Seeded property-breaking changes and which checks report them\n\n")
    f.write("Each change was produced by a fresh sub-agent that saw only the property text and a scratch worktree, passes the unedited test suite, and comes with a demonstration (demo.py) that fails with the change and passes without it. `tools/run_seeded.py` applies each patch to /repo, runs the quick tier of the listed checks and reverts.\n\n")
    f.write("| id | property | what | needs | caught by |\n|---|---|---|---|---|\n")
    for sid, meta in rows:
        v = meta.get("verif", {})
        cb = ", ".join(v.get("caught_by", [])) or ("patch no longer applies" if v.get("applies") is False else
                                                    "no longer breaks the property on the current tree (demo passes with the patch applied)" if v.get("demo_exit_with_patch") == 0 else
                                                    ("**not caught** - " + v["note"]) if v.get("note") else "**not caught**")
        f.write(f"| {sid} | {meta.get('property','')} | {meta.get('what','')[:220].replace('|','/')} | {meta.get('needs','')[:160].replace('|','/')} | {cb} |\n")
print("written seeded/RESULTS.md")
