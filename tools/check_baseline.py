#!/venv/bin/python
"""Run the pinned test command on a tree (default /repo) and compare per-test results with BASELINE.json's stable_pass list."""
import json, subprocess, sys, xml.etree.ElementTree as ET, tempfile, os
tree = sys.argv[1] if len(sys.argv) > 1 else "/repo"
out = tempfile.mktemp(suffix=".xml")
subprocess.run(f"cd {tree} && /venv/bin/python -m pytest -ra -q -p no:cacheprovider --timeout=900 --continue-on-collection-errors --junitxml={out} >/dev/null 2>&1", shell=True)
base = set(json.load(open("/root/.vp/BASELINE.json"))["stable_pass"])
passed = set()
for tc in ET.parse(out).getroot().iter("testcase"):
    if not list(tc):  # no failure / error / skipped child
        passed.add(tc.get("classname") + "::" + tc.get("name"))
os.remove(out)
missing = sorted(base - passed)
print(f"baseline {len(base)}  passed-now {len(passed)}  missing {len(missing)}")
for m in missing:
    print("  MISSING", m)
sys.exit(1 if missing else 0)
