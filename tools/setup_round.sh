#!/bin/bash
# dev-time: prepare /tmp/mut/<ID>/{property.txt,avoid.txt,wt} for a round of mutation agents (worktrees of /repo HEAD)
set -e
mkdir -p /tmp/mut
for i in 01 02 03 04 05 06 07 08 09 10 11 12 13 14 15 16 17 18 19; do
  id=C$i; d=/tmp/mut/$id; mkdir -p $d/out
  /venv/bin/python -W ignore - "$id" > $d/property.txt <<'P'
import json, sys
for l in open('/verif/properties.jsonl'):
    p = json.loads(l)
    if p['id'] == sys.argv[1]:
        print(json.dumps(p, indent=1))
P
  /venv/bin/python -W ignore - "$id" > $d/avoid.txt <<'P'
import json, sys, glob
for f in sorted(glob.glob(f'/verif/seeded/{sys.argv[1]}-*/meta.json')):
    m = json.load(open(f))
    print("-", m.get('what', ''), "| NEEDS:", m.get('needs', ''))
P
  [ -d $d/wt ] || git -C /repo worktree add -q --detach $d/wt HEAD
done
ls /tmp/mut; wc -l /tmp/mut/*/avoid.txt | tail -1
