#!/bin/bash
# dev-time: tools/verify_round.sh <round-tag e.g. r8>  - confirm every seeded/<ID>-<tag>m* in a scratch worktree:
# demo exits 0 on the clean tree and 1 with the patch; the pinned suite's summary counts are the same with the patch.
W=/tmp/vwt
[ -d $W ] || git -C /repo worktree add -q --detach $W HEAD
PP=$W:$W/pdks/Sky130:$W/pdks/Gf180:$W/pdks/Asap7
suite() { (cd $W && PYTHONPATH=$PP /venv/bin/python -m pytest -q -p no:cacheprovider --timeout=900 --continue-on-collection-errors 2>&1 | tail -1 | sed 's/ in [0-9.]*s.*//'); }
base=$(suite); echo "baseline: $base"
for d in /verif/seeded/*-$1m*; do
  [ -f $d/patch.diff ] || continue
  (cd /tmp && PYTHONPATH=$PP timeout 300 /venv/bin/python -W ignore $d/demo.py >/dev/null 2>&1); c=$?
  git -C $W apply $d/patch.diff || { echo "$(basename $d): PATCH DOES NOT APPLY"; continue; }
  (cd /tmp && PYTHONPATH=$PP timeout 300 /venv/bin/python -W ignore $d/demo.py >/dev/null 2>&1); m=$?
  s=$(suite)
  git -C $W checkout -- .
  ok=OK; [ "$c" = 0 ] && [ "$m" = 1 ] && [ "$s" = "$base" ] || ok=PROBLEM
  echo "$(basename $d): clean_exit=$c mutant_exit=$m suite_same=$([ "$s" = "$base" ] && echo yes || echo "NO ($s)") $ok"
done
