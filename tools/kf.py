#!/venv/bin/python
"""tools/kf.py fixed|open <prop> <commit-or-dash> <what> [match-json]  — append an entry to known_findings.json (dev-time only)."""
import json, sys
status, prop, commit, what = sys.argv[1:5]
k = json.load(open("/verif/known_findings.json"))
e = {"property": prop, "status": status, "what": what}
if status == "fixed":
    e["commit"] = commit
    e["line"] = f"fixed: property={prop} {commit} {what}"
else:
    e["match"] = json.loads(sys.argv[5])
k["findings"].append(e)
json.dump(k, open("/verif/known_findings.json", "w"), indent=1)
