#!/bin/bash
# dev-time: import finished round-8 agent outputs from /tmp/mut/<ID>/out/m* as seeded/<ID>-r2m* and try them
cd /verif
for f in /tmp/mut/*/out/*/meta.json; do
  d=$(dirname $f); m=$(basename $d); p=$(basename $(dirname $(dirname $d)))
  t=seeded/$p-r8$m
  [ -d $t ] && continue
  [ -f $d/patch.diff ] && [ -f $d/demo.py ] || continue
  mkdir -p $t; cp $d/* $t/
  echo "== $t"; /venv/bin/python -c "import json;m=json.load(open('$t/meta.json'));print(m.get('what','')[:400])" 2>/dev/null
  tools/try_mutant.sh /verif/$t $p 2>&1 | grep -v conda | cut -c1-260
done
