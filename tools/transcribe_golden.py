#!/venv/bin/python
"""One-off transcription of the documented PDK device tables (readme.md of each PDK package) into /verif/golden/*.json.
The golden files are committed; the checks read them, never the readmes."""
import json, re, sys


def tables(path):
    rows, cur, out = [], None, []
    for ln in open(path):
        if ln.startswith("|"):
            cells = [c.strip() for c in ln.strip().strip("|").split("|")]
            if cur is None:
                cur = dict(header=cells, rows=[])
            elif set(cells[0]) <= set("-: "):
                continue
            else:
                cur["rows"].append(cells)
        else:
            if cur is not None:
                out.append(cur)
                cur = None
    if cur is not None:
        out.append(cur)
    return out


def nterm(s):
    m = re.match(r"\s*(\d+)", s)
    return int(m.group(1)) if m else None


sky = tables("/repo/pdks/Sky130/readme.md")
g = {"mos": [], "res": [], "diode": [], "bjt": [], "cap": []}
for t in sky:
    h = t["header"]
    if h[:4] == ["Component Key", "MosType", "MosVth", "MosFamily"]:
        for r in t["rows"]:
            g["mos"].append(dict(key=r[0], tp=r[1], vth=r[2], family=r[3], name=r[4], terminals=5 if "5-Terminal" in r[5] else 4))
    elif h[0] == "Component Key" and "Number of Terminals" in h and "Capacitor Type" in h:
        for r in t["rows"]:
            g["cap"].append(dict(key=r[0], name=r[1], terminals=nterm(r[2]), kind=r[3]))
    elif h[0] == "Component Key" and "Number of Terminals" in h and any("npn" in r[1] or "pnp" in r[1] for r in t["rows"]):
        for r in t["rows"]:
            g["bjt"].append(dict(key=r[0], name=r[1], terminals=nterm(r[2]), tp="NPN" if r[0].startswith("NPN") else "PNP"))
    elif h[0] == "Component Key" and "Number of Terminals" in h:
        for r in t["rows"]:
            g["res"].append(dict(key=r[0], name=r[1], terminals=nterm(r[2])))
    elif h[0] == "Component Key" and len(h) == 3 and any("res_" in r[1] for r in t["rows"]):
        for r in t["rows"]:
            g["res"].append(dict(key=r[0], name=r[1], terminals=3))  # "3-terminal precision resistors"
    elif h[0] == "Component Key" and len(h) == 3 and any("diode" in r[1] for r in t["rows"]):
        for r in t["rows"]:
            g["diode"].append(dict(key=r[0], name=r[1], terminals=2))
json.dump(g, open("/verif/golden/sky130.json", "w"), indent=1)
print("sky130", {k: len(v) for k, v in g.items()})

gf = tables("/repo/pdks/Gf180/readme.md")
g = {"mos": [], "res": [], "diode": [], "bjt": [], "cap": []}
for t in gf:
    h = t["header"]
    if h[:3] == ["Component Name", "Mos Type", "Mos Family"]:
        for r in t["rows"]:
            g["mos"].append(dict(key=r[0], tp=r[1], family=r[2], name=r[3], terminals=len(r[4].split(","))))
    elif h[:3] == ["Component Name", "Model Name", "Ports"]:
        for r in t["rows"]:
            n = len(r[2].split(","))
            nm = r[1]
            kind = "diode" if "diode" in nm else "bjt" if nm.startswith(("pnp", "npn")) else "cap" if nm.startswith("cap") else "res"
            d = dict(key=r[0], name=nm, terminals=n)
            if kind == "bjt":
                d["tp"] = "NPN" if nm.startswith("npn") else "PNP"
            g[kind].append(d)
json.dump(g, open("/verif/golden/gf180.json", "w"), indent=1)
print("gf180", {k: len(v) for k, v in g.items()})

# ASAP7: "core Mos transistors {n,p}mos_{rvt,lvt,slvt,sram}"; generic selection by (type, threshold): STD -> rvt, LOW -> lvt
g = {"mos": [dict(key=f"{t}mos_{v}", name=f"{t}mos_{v}", tp={"n": "NMOS", "p": "PMOS"}[t], vth={"rvt": "STD", "lvt": "LOW"}.get(v), terminals=4) for t in "np" for v in ("rvt", "lvt", "slvt", "sram")]}
json.dump(g, open("/verif/golden/asap7.json", "w"), indent=1)
# sample PDK: Nmos / Pmos external modules "nmos" / "pmos"
g = {"mos": [dict(key="nmos", name="nmos", tp="NMOS", terminals=4), dict(key="pmos", name="pmos", tp="PMOS", terminals=4)]}
json.dump(g, open("/verif/golden/sample.json", "w"), indent=1)
print("done")
