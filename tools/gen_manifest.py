#!/venv/bin/python
"""Regenerate /verif/MANIFEST.json from the table below (dev-time helper; the manifest itself is committed)."""
import json, os

TECH = "bounded-exhaustive explicit-state exploration of the implementation (hand-written explorer driving the real library), oracle = independent reference model"

CHECKS = {
    "C01": dict(
        text="every design of the stated families (expression trees, port-reference graphs, no-connects, bundles, arrays, pairs, hierarchies) up to the size bounds is built on the real library in three construction styles, exported and netlisted; its leaf-level bit-net partition and devices are compared with an independent reference semantics, read both from the Package and from the SPICE text",
        note="bounded: bus widths<=6, <=3 instances per menu, depth<=3; vlsirtools netlisters trusted as the reading of a package; designs that define a net in terms of itself through a slice/concat are judged raise-or-correct",
        tech="exhaustive enumeration of design programs up to a size bound, each executed on the implementation and compared with a reference semantics",
        ref="DESIGN.md 2/C01"),
    "C03": dict(
        text="every (parent kind, width, index) point of the stated box is evaluated on the real Slice/Concat/SliceResolver/exporter and compared with Python's own list indexing",
        note="W<=4 quick / <=6 thorough; non-unit steps and bounds beyond [-W,W] judged raise-or-correct as the statement allows",
        tech="exhaustive enumeration of a bounded input box executed on the implementation, oracle = Python list semantics",
        ref="DESIGN.md 2/C03"),
    "C10": dict(
        text="bundle definition trees enumerated exhaustively inside stated families - flat bundles with 1..3 leaves over every assignment of 9 leaf kinds; chains of depth 2 and 3 over leaf kind x flip spelling (none / constructor flag / flipped()) x role per level; fan-out trees with 2..3 sub-bundles - each as a port and as an internal instance with every flip and role of the instance; exported ports (name, width, direction) and internal signals compared with a 20-line reference flattener",
        note="a role-carrying leaf takes its direction from the immediately enclosing bundle instance; quick tier takes every 4th depth-3 chain and every 3rd fan tree (cap reported); the connection half is decided by C01/F4 and C05",
        tech="exhaustive enumeration of a bounded input family executed on the implementation, oracle = reference flattener",
        ref="DESIGN.md 2/C10"),
    "C11": dict(
        text="for every package produced by the design families, the primitive parameter space (every primitive x field x typed value), external modules with every SpiceType / port direction / parameter mix and module literals, and the example scripts: from_proto, re-export of the imported top-level modules, and protobuf equality with the original",
        note="quick tier takes a fixed arithmetic sub-sequence of the two largest families (reported as a cap)",
        tech="differential check (export / import / export) over a bounded-exhaustive corpus of packages produced by the implementation",
        ref="DESIGN.md 2/C11"),
    "C12": dict(
        text="deciding leg: for every design of the corpus (design families incl. one-object-feeds-many-ports designs, the DAGs, the example scripts) all executions with at most 1 deviation (2 thorough) from insertion order at every point where the library iterates a hash set of >=2 elements are run under a controllable set class bound to the name `set` of every hdl21 module (set displays and comprehensions are compiled as calls to it by an import hook of the checker, so every hash set hdl21 creates is owned); package bytes and spice / spectre / verilog text must equal the 0-deviation run. Conformance leg: the corpus is re-run in 5 (8) real sub-processes with different PYTHONHASHSEED and allocation noise, which must agree with each other and with the explored runs (else the seam is reported incomplete)",
        note="owns set-iteration order only; the sub-process leg is sampling and only validates the seam; choice points over >4 elements use transpositions + reversal",
        tech="iterative deviation-bounded exhaustive exploration of iteration orders (stateless model checking of the implementation under a controlled nondeterminism source) plus replay in real processes",
        ref="DESIGN.md 2/C12"),
    "C13": dict(
        text="every primitive x parameter field x value of a typed alphabet (prefix x mantissa grid, ints, floats, Decimals, strings, literals, enums, None), plus external modules and to_scalar, exported on the real library; the ParamValue is parsed with unlimited precision and compared with the exact input",
        note="floats may appear as shortest-repr decimal or exact binary value; plain ints beyond 64 bits and ambiguous numeric spellings are outside the alphabet",
        tech="exhaustive enumeration of a bounded input box executed on the implementation, oracle = exact rational arithmetic",
        ref="DESIGN.md 2/C13"),
    "C14": dict(
        text="all 441 ordered prefix pairs x all ordered pairs of a mantissa set: + - * neg abs scale int float, six comparisons and hash evaluated on the real Prefixed and compared with fractions.Fraction",
        note="comparison tolerance read most leniently; division and pow are not part of the statement",
        tech="exhaustive enumeration of a bounded input box executed on the implementation, oracle = exact rational arithmetic",
        ref="DESIGN.md 2/C14"),
    "C02": dict(
        text="for a base corpus drawn from every design family, every single-fault mutant (declared width +-1, slice bound, empty slice, out-of-range index, concat part, anonymous-member width, referenced-port width, array count, missing connection (also with the port read afterwards), extra port, bad port / member reference, bundle instance of another type, orphan signal / bundle / instance owned by nobody or by another module, signal replaced after being connected, no-connect referenced directly or inside a concatenation / slice) is planted at every site; mutants the reference semantics calls ill-formed for that reason are run through elaborate, to_proto and netlist on fresh builds, each of which must raise; plus directly built cycles (length 1..3, depth 0..2), unnamed modules and module-name clashes",
        note="base designs are every k-th design of each family (offset by VERIF_SEED); range bounds beyond [-w,w] follow C03's raise-or-clamp rule; a shared NoConn object is well-formed per C01's quantifier",
        tech="exhaustive single-fault mutation of a bounded design corpus at every site, each mutant executed on the implementation; reference semantics decides ill-formedness",
        ref="DESIGN.md 2/C02"),
    "C04": dict(
        text="all operation histories (call / setattr / connect / replace / disconnect x every kind of connectable, objects shared within a history) up to depth 2 (3 thorough) on an Instance, an InstanceArray and a Pair are replayed on fresh real objects; Instance.conns is compared with a last-writer-wins model after every step and every history is completed, elaborated, exported and compared with the reference semantics of its final mapping",
        note="a state is the history reaching it (no merging); only histories whose completed final mapping is valid are judged at export level",
        tech="breadth-first exploration of all operation sequences up to a depth bound on the real objects, invariant per state plus reference-model comparison of every terminal state",
        ref="DESIGN.md 2/C04"),
    "C05": dict(
        text="every elaborator naming rule (implicit reference signal, unnamed / named no-connect, flattened members of internal, port and nested bundles, array and pair elements) x adversary object kinds named exactly like the invented name (every subset of N, N_, N__) x declaration order; oracle: exception, or a well-formed package that keeps every designer object under its own name and has exactly the reference partition",
        note="a clash may be resolved by a fresh name or by raising",
        tech="exhaustive enumeration of adversarially named design programs executed on the implementation, compared with a reference semantics",
        ref="DESIGN.md 2/C05"),
    "C06": dict(
        text="the well-formedness predicate (closure, uniqueness, definition-before-use, exactly-once port connection, in-range slices, width agreement) plus from_proto / spice / spectre acceptance is evaluated on every package returned by to_proto over all design families, the example scripts (to_proto intercepted), the built-in generators, generated-name pairs and PDK-compiled designs",
        note="netlister acceptance demanded only of packages without uncompiled physical primitives; quick tier takes a fixed arithmetic sub-sequence of the two largest families (reported as a cap)",
        tech="invariant checked on every state of a bounded-exhaustive exploration of design programs executed on the implementation",
        ref="DESIGN.md 2/C06"),
    "C07": dict(
        text="for two design DAGs with shared sub-modules (bundle ports, port references, no-connects, arrays, pairs): every sequence of up to 2 calls (3 thorough, reduced alphabet) out of elaborate / to_proto / netlist of every module and elaborate / to_proto of every ordered pair is run on fresh objects, after which the package of every module must be byte-identical to that of a fresh build, exporting again must change nothing, a new parent must see the elaborated module's bundle-level ports, and additions must be refused; a subset is re-run in fresh sub-processes",
        note="stateless enumeration: no state merging, since cache contents are the thing under test",
        tech="exhaustive enumeration of call histories up to a depth bound on the real objects, differential oracle against a history-free build",
        ref="DESIGN.md 2/C07"),
    "C08": dict(
        text="fault points enumerated exhaustively: an injected failing pass at every (pass position x module) of two design DAGs through the public custom pass list; every library-rejected single-fault mutant of the DAG designs (so each checking / rewriting pass and the exporter fails somewhere); generator bodies raising (plain, nested, shared); each followed by every continuation: retry unchanged, retry with the fault removed, repair and retry, unrelated design, export of every healthy module (children or parents first), export of every other module containing the faulty one (must agree with a fresh build of the same faulty design), edit of every healthy module followed by its export (refused, or equal to a fresh build with the same edit), retry again",
        note="'original error again' = the informative tail of the first message re-appears and no circular-dependency error appears that the first attempt did not report; quick tier: every 2nd real mutant, to_proto entry only (cap reported)",
        tech="exhaustive fault-point x continuation enumeration on the implementation (fault injection through public extension points and planted design faults), differential oracle against fresh builds",
        ref="DESIGN.md 2/C08"),
    "C09": dict(
        text="for eleven parameter-class shapes (incl. Optional[str] and set-valued fields), all ordered pairs of an adversarial value set x three call forms (keywords, instance, handed on through a second generator) are executed on the real generator machinery in a fresh cache: identity, body-run counts, package names and netlist sub-circuit names are compared; all permutations of up to four calls are replayed for name stability; three fresh processes with different hash seeds must agree",
        note="parameter-class equality decides which calls must share a Module; two same-named Modules as parameter values and unhashable dict-parameter calls are excluded as grey",
        tech="exhaustive enumeration of value pairs and of call-order permutations (operation histories) executed on the implementation, differential oracle across histories and processes",
        ref="DESIGN.md 2/C09"),
    "C15": dict(
        text="every row of every documented device table of the sample, Sky130, GF180 and ASAP7 PDKs (golden tables transcribed from the readmes) selected by model name with the documented and the wrong terminal count, with sizes given / defaulted and multipliers, and all 84 (type, family, threshold) Mos triples per PDK, each placed in a three-level hierarchy with shared sub-modules: snapshot of hierarchy / names / connection identity before and after compile, documented device name, port set, parameter values, export and spice + spectre netlists, compile-twice and compile-by-two-PDKs idempotence, equal parameters; hdl21.pdk.compile by default / name / module / package with one and several registered PDKs in fresh sub-processes; every logic cell (about 3150) instantiated with each port on its own net, exported and netlisted",
        note="GF180 documents no threshold column: non-standard thresholds and the ambiguous family NONE are judged 'any matching row or a descriptive error'; 66 open known findings (terminal-count mismatches the repository's own tests rely on) are listed in known_findings.json",
        tech="exhaustive enumeration of the documented device tables and parameter triples executed on the implementation, oracle = transcribed documentation tables plus before/after snapshots",
        ref="DESIGN.md 2/C15"),
    "C16": dict(
        text="depth-3 hierarchies with shared sub-modules, scalar and bus nets, internal nets at every level and primitive / external-module leaves at every level, over every assignment of each instance port to a same-width signal in scope (2 x 64 x 64, 1/4 in quick), with adversarial root-level signal names equal to flatten()'s path names; flatten(m) must contain only leaves, one per leaf device of the reference semantics, keep m's ports, and export exactly the reference leaf-level partition - or raise (only allowed for colliding names and for slices / concats / arrays); plus a cross-family leg in which every design of the C01 families (expression trees, port references, no-connects, arrays, bundles, pairs, hierarchies; every 3rd in quick) is flattened from a fresh build and compared with its own hierarchical export (which C01 compares with the reference semantics), raise-or-right; naming slips and a top-level leaf named like a nested path-name",
        note="instance names are adversarial only in the dedicated own-leaf scenario (the comparison maps reference paths to ':'-joined names)",
        tech="exhaustive enumeration of bounded design programs executed on the implementation, compared with a reference semantics",
        ref="DESIGN.md 2/C16"),
    "C17": dict(
        text="Sim descriptions (every analysis type named and unnamed x nine Scalar spellings, three sweep kinds, Sweep>Monte>Tran and Monte>Sweep>{Dc,Op} nesting, every save-target form, params / options / includes / libs / literals / measurements in mixed order) are built four ways (constructor list, add(), add-methods, @sim class) and exported alone, in a list sharing the testbench and in a list with distinct testbenches; a reference translator gives the expected SimInput field by field and in order; generated analysis names must be distinct; testbenches without exactly one scalar port must be refused",
        note="SaveMode.SELECTED has no VLSIR counterpart and is outside the alphabet; clashes between generated and user-chosen analysis names are not judged",
        tech="exhaustive enumeration of a bounded input family executed on the implementation, oracle = reference translator",
        ref="DESIGN.md 2/C17"),
    "C18": dict(
        text="breadth-first search over all setattr / add(named) / add(name=) operations with names {a,b} and every attribute kind on a real Module (states merged on the reference model's state, to a fixpoint) plus all un-merged histories up to length 2 (3 thorough); after every step get(), attribute access, the six views, the namespace, port visibility and parent pointers are compared with a dict model, rejected operations are tried in every state, every name shadowed by one of the object's own Python attributes is probed (refused, or coherently stored), and every state is exported and compared with the reference semantics; the same for Bundles to length 3 (4) incl. additions after a using module was elaborated; class-style vs procedural definitions over all sequences up to length 2 (3)",
        note="storing one object under two different names is outside the alphabet (unspecified behaviour)",
        tech="explicit-state breadth-first search over operation histories of the real objects with canonical state merging, invariant checked in every state against a reference model",
        ref="DESIGN.md 2/C18"),
    "C19": dict(
        text="Series over n in 1..4 (8 thorough) x 8 unit cells (2-4 port primitives, external module, module with bus port, module with bundle port) x every ordered pair of distinct scalar unit ports given by name and by Signal, MosStack over n, Wrapper of every unit, pre-elaborated units, units whose ports are named like the generators' own attributes, and calls made after another same-named cell / after the earlier wrapper was edited; the exported package's leaf-level partition, devices and ports are compared with the chain topology written directly as a design description and run through the reference semantics; series ports wider than a bit must be refused",
        note="array elements are matched under their documented names units_k",
        tech="exhaustive enumeration of a bounded input box executed on the implementation, oracle = reference model of the documented topology",
        ref="DESIGN.md 2/C19"),
}

NOT_YET = {}

ALL = [f"C{n:02d}" for n in range(1, 20)]


def main():
    existing = {}
    checks = []
    for pid in ALL:
        if pid not in CHECKS:
            continue
        c = CHECKS[pid]
        checks.append({
            "property_id": pid,
            "quick_cmd": f"./run {pid} --tier quick",
            "thorough_cmd": f"./run {pid} --tier thorough",
            "evidence_file": f"evidence/{pid}.json",
            "replay_cmd_template": f"./run {pid} --replay {{path}}",
            "engine": "hv",
            "level_claimed": {"category": "model_checking", "text": c["text"], "design_ref": c["ref"]},
            "level_note": c["note"],
            "technique": c["tech"],
        })
    na = [{"property_id": pid, "reason": NOT_YET.get(pid, "no check registered yet: the exploration for this property is still being built (see DESIGN.md section 8); nothing is claimed for it")} for pid in ALL if pid not in CHECKS]
    man = {
        "version": 1,
        "setup_cmd": "./run SELFTEST",
        "hooks": {
            "guard": "HDL21_VERIF",
            "enable": "no source hooks exist in /repo: every seam (custom pass lists, rebinding of the module-global name `set`, call interception) is reached from outside; ./run exports HDL21_VERIF=1 for uniformity",
            "baseline_off_cmd": "cd /repo && /venv/bin/python -m pytest -ra -q -p no:cacheprovider --timeout=900 --continue-on-collection-errors",
            "source_commits": [],
            "add_only": True,
        },
        "engines": [{
            "name": "hv", "path": "hv/", "serves_properties": sorted(CHECKS),
            "kind_free_text": "hand-written bounded-exhaustive explorer in Python that drives the real library: design-program enumeration against a reference semantics (E1), value boxes (E2), operation-history BFS (E3), fault-point and iteration-order enumeration (E4)",
        }],
        "checks": checks,
        "not_applicable": na,
        "notes": "All checks run `/verif/run <id>` under /venv/bin/python with PYTHONHASHSEED=0 against /repo's working tree (hdl21 is installed editable; PDK packages come from /repo/pdks/* via PYTHONPATH). known_findings.json lists fixed and open genuine defects.",
    }
    json.dump(man, open("/verif/MANIFEST.json", "w"), indent=1)
    print("checks:", [c["property_id"] for c in checks], "not_applicable:", len(na))


if __name__ == "__main__":
    main()
