"""Small helpers shared by the design families."""

import itertools


def sig(n):
    return ("sig", n)


def idx(e, i):
    return ("idx", e, i)


def rng(e, a, b, s=None):
    return ("rng", e, a, b, s)


def cat(*parts):
    return ("cat", list(parts))


def pref(i, p):
    return ("pref", i, p)


def nc(i, name=None):
    return ("nc", i, name)


def ext_leaf(ports):
    """ExtDef with the given [(name, width)] ports."""
    return {"ports": [tuple(p) for p in ports]}


def leaf_module(name, ports, style="proc", tag=0, bports=()):
    """A Module with the given signal ports [(name,width)] (+ bundle ports [(name,bundle,flipped,role)]),
    holding one external-module leaf `u` whose ports mirror the signal ports and, for every bundle leaf member,
    a tagged resistor from that member bit to the module's own private net."""
    decls = [("port", n, w, "none") for n, w in ports]
    for bp in bports:
        decls.append(("bport",) + tuple(bp))
    ename = "L_" + "_".join(f"{n}{w}" for n, w in ports)
    if ports:
        decls.append(("inst", "u", ("ext", ename, {"k": tag}), [(n, sig(n)) for n, w in ports]))
    return {"name": name, "style": style, "decls": decls}, ename, ext_leaf(ports)


def probe(name, signame, width, tag=0):
    """An external-module instance making every bit of parent signal `signame` a leaf terminal."""
    return ("inst", name, ("ext", f"P{width}", {"k": tag}), [("a", sig(signame))])


def probe_ext(width):
    return f"P{width}", ext_leaf([("a", width)])


def expr_size(e):
    if e[0] in ("sig", "pref", "nc", "b", "bref"):
        return 1
    if e[0] in ("idx", "rng"):
        return 1 + expr_size(e[1])
    if e[0] == "cat":
        return 1 + sum(expr_size(p) for p in e[1])
    if e[0] in ("anon", "dict"):
        return 1 + sum(expr_size(p) for _n, p in e[1])
    return 1


def list_eval(e, env):
    """Python-list meaning of a bus expression over `env` {signame: list of bit labels}. None if it selects nothing /
    is out of range (the families only keep well-defined expressions)."""
    k = e[0]
    if k == "sig":
        return list(env[e[1]])
    if k == "idx":
        v = list_eval(e[1], env)
        if v is None or not (-len(v) <= e[2] < len(v)):
            return None
        return [v[e[2]]]
    if k == "rng":
        v = list_eval(e[1], env)
        if v is None:
            return None
        w = len(v)
        for b in (e[2], e[3]):
            if b is not None and not (-w <= b <= w):
                return None
        if e[4] == 0:
            return None
        r = v[slice(e[2], e[3], e[4])]
        return r or None
    if k == "cat":
        out = []
        for p in e[1]:
            v = list_eval(p, env)
            if v is None:
                return None
            out += v
        return out or None
    raise ValueError(e)
