"""
F2 — port-reference graphs: k instances of Inner(a, b); every assignment of a connection to each port from a menu of
{nothing, parent signal, slice of a bus, 1-part concat, reference to any other port, slice / concat of references};
kept when the reference semantics calls the design valid.  Chains, fans, cycles, with and without an explicit signal.
"""

import itertools
from .base import *
from .. import refsem


def menu_scalar(i, k, rich):
    """Connection options for a 1-bit port of instance i (None = leave unconnected)."""
    opts = [None, sig("s1"), sig("s2"), idx(sig("v"), 0), idx(sig("v"), 1)]
    if rich:
        opts.append(cat(idx(sig("v"), 0)))
    for j in range(k):
        for p in ("a", "b"):
            opts.append(pref(f"i{j}", p))
    if rich:
        for j in range(k):
            if j != i:
                opts.append(idx(pref(f"i{j}", "a"), 0))
                opts.append(cat(pref(f"i{j}", "b")))
    return opts


def menu_bus(i, k, rich):
    """Connection options for a 2-bit port."""
    opts = [None, sig("v"), sig("u"), cat(sig("s1"), sig("s2")), rng(sig("t"), 1, 3, None)]
    for j in range(k):
        for p in ("a", "b"):
            opts.append(pref(f"i{j}", p))
    for j in range(k):
        if j != i:
            opts.append(rng(pref(f"i{j}", "a"), 0, 2, None))
            if rich:
                opts.append(cat(idx(pref(f"i{j}", "a"), 0), idx(pref(f"i{j}", "b"), 1)))
                opts.append(cat(idx(pref(f"i{j}", "b"), 1), sig("s1")))
    return opts


def mk_design(k, w, assign, style):
    inner, ename, edef = leaf_module("Inner", [("a", w), ("b", w)], tag=3)
    exts = {ename: edef}
    decls = []
    if w == 1:
        sigs = [("s1", 1), ("s2", 1), ("v", 2)]
    else:
        sigs = [("s1", 1), ("s2", 1), ("v", 2), ("u", 2), ("t", 4)]
    for n, ww in sigs:
        decls.append(("sig", n, ww))
        en, ed = probe_ext(ww)
        exts[en] = ed
        decls.append(probe("p_" + n, n, ww, tag=7))
    for i in range(k):
        conns = []
        for pn, e in zip(("a", "b"), assign[2 * i : 2 * i + 2]):
            if e is not None:
                conns.append((pn, e))
        decls.append(("inst", f"i{i}", ("mod", "Inner"), conns))
    top = {"name": "Top", "style": style, "decls": decls}
    return {"bundles": {}, "exts": exts, "modules": {"Inner": inner, "Top": top}, "top": "Top"}


def plans(tier):
    p = [(2, 1, True), (2, 2, True)]
    if tier == "thorough":
        p += [(3, 1, False)]
    return p


def menus_for(k, w, rich):
    menus = []
    for i in range(k):
        m = (menu_scalar if w == 1 else menu_bus)(i, k, rich)
        for p in ("a", "b"):
            menus.append([e for e in m if not (e is not None and e == pref(f"i{i}", p))])  # a port never refers to itself
    return menus


def items(tier):
    """Compact descriptors (k, w, rich, index tuple); designs are materialized in the workers."""
    out = []
    for k, w, rich in plans(tier):
        menus = menus_for(k, w, rich)
        for n, ix in enumerate(itertools.product(*[range(len(m)) for m in menus])):
            out.append((k, w, rich, ix, n))
    return out


def design(desc):
    k, w, rich, ix, n = desc
    menus = menus_for(k, w, rich)
    assign = [m[i] for m, i in zip(menus, ix)]
    return f"F2/k{k}w{w}", mk_design(k, w, assign, ["proc", "class", "gen"][n % 3])
