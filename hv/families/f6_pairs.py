"""
F6 — instance pairs h.Pair(M): every port fed by a Diff bundle instance (internal / port, constructor or `2 * Diff()`),
an anonymous bundle (signals, slices, bundle references swapped), a scalar signal / slice / concat (parallel), or a
reference to another instance's port; targets: module, external module, primitive.
"""

import itertools
from .base import *

DIFF = {"Diff": {"sigs": [("p", 1, "sig"), ("n", 1, "sig")], "subs": [], "builtin": "Diff"}}


def menu(w):
    m = [sig("s") if w == 1 else sig("v"), pref("solo", "a" if w == 1 else "b")]
    if w == 1:
        m += [("b", "d0"), ("b", "d1"), ("b", "pd"), ("b", "dm0"), ("b", "dm1"),
              ("anon", [("p", sig("s")), ("n", sig("s2"))]),
              ("anon", [("p", ("bref", "d0", ["n"])), ("n", ("bref", "d0", ["p"]))]),
              ("anon", [("p", idx(sig("v"), 1)), ("n", idx(sig("t"), 2))]),
              idx(sig("v"), 0), cat(sig("s2")),
              # members written in another order than the bundle declares them
              ("anon", [("n", sig("s2")), ("p", sig("s"))]),
              ("dict", [("n", idx(sig("t"), 3)), ("p", ("bref", "d1", ["n"]))])]
    else:
        m += [("anon", [("p", sig("v")), ("n", rng(sig("t"), 1, 3))]),
              ("anon", [("p", cat(sig("s"), sig("s2"))), ("n", sig("v"))]),
              rng(sig("t"), 2, 4), cat(sig("s"), idx(sig("v"), 1)),
              ("anon", [("n", rng(sig("t"), 0, 2)), ("p", sig("v"))])]
    return m


def items(tier):
    out, n = [], 0
    for kind in ("mod", "ext", "prim", "modpair"):
        for w in ((1, 2) if kind in ("mod", "ext") else (1,)):
            m = menu(w)
            for ia, ib in itertools.product(range(len(m)), repeat=2):
                out.append((kind, w, ia, ib, n))
                n += 1
    return out


def design(desc):
    kind, w, ia, ib, n = desc
    m = menu(w)
    ea, eb = m[ia], m[ib]
    exts, mods, decls = {}, {}, []
    for nm, ww in [("s", 1), ("s2", 1), ("v", 2), ("t", 4)]:
        decls.append(("sig", nm, ww))
        en, ed = probe_ext(ww)
        exts[en] = ed
        decls.append(probe("p_" + nm, nm, ww, tag=3))
    decls += [("binst", "d0", "Diff"), ("binst", "d1", "Diff"), ("bport", "pd", "Diff", False, None),
              ("binst", "dm0", "Diff", "mult", 0), ("binst", "dm1", "Diff", "mult", 0)]
    for bn in ("d0", "d1", "dm0", "dm1"):
        decls.append(("inst", "q_" + bn + "_p", ("ext", "P1", {"k": 6}), [("a", ("bref", bn, ["p"]))]))
        decls.append(("inst", "q_" + bn + "_n", ("ext", "P1", {"k": 7}), [("a", ("bref", bn, ["n"]))]))
    solo, en, ed = leaf_module("Solo", [("a", 1), ("b", 2)], tag=8)
    mods["Solo"] = solo
    exts[en] = ed
    uses = repr(ea) + repr(eb)
    sc = []
    if "'solo', 'a'" not in uses:
        sc.append(("a", sig("s")))
    if "'solo', 'b'" not in uses:
        sc.append(("b", sig("v")))
    decls.append(("inst", "solo", ("mod", "Solo"), sc))
    if kind == "mod":
        inner, en, ed = leaf_module("Inner", [("a", w), ("b", w)], tag=1)
        mods["Inner"] = inner
        exts[en] = ed
        target, pa, pb = ("mod", "Inner"), "a", "b"
    elif kind == "modpair":
        # the paired module itself contains a Pair, and is reached through this Pair only
        inner, en, ed = leaf_module("Inner", [("a", 1), ("b", 1)], tag=1)
        inner["decls"].append(("pair", "pp", ("prim", "R", {"r": 7}), [("p", ("anon", [("p", sig("a")), ("n", sig("b"))])), ("n", sig("b"))]))
        mods["Inner"] = inner
        exts[en] = ed
        target, pa, pb = ("mod", "Inner"), "a", "b"
    elif kind == "ext":
        exts[f"L_a{w}_b{w}"] = ext_leaf([("a", w), ("b", w)])
        target, pa, pb = ("ext", f"L_a{w}_b{w}", {"k": 6}), "a", "b"
    else:
        target, pa, pb = ("prim", "R", {"r": 13}), "p", "n"
    decls.append(("pair", "pr", target, [(pa, ea), (pb, eb)]))
    mods["Top"] = {"name": "Top", "style": ["proc", "class", "gen"][n % 3], "decls": decls}
    return f"F6/{kind}", {"bundles": DIFF, "exts": exts, "modules": mods, "top": "Top"}
