"""
F8 — adversarial names: for each naming rule of the elaborator (implicit signal of a reference group, of an unnamed
no-connect, named no-connect, flattened bundle members of internal and port bundles incl. nested, array elements, pair
elements) the triggering design x adversary objects of every kind named exactly like the name the elaborator would pick
(N, N_, N__; every non-empty subset) x declaration order (adversary before / after the trigger).
"""

import itertools
from .base import *
from .f4_bundles import BUNDLES, bref, b

BUND = dict(BUNDLES)
BUND["BXY"] = {"sigs": [("y", 2, "sig")], "subs": []}
BUND["BC"] = {"sigs": [("x_y", 2, "sig"), ("x_y_", 1, "sig")], "subs": [("x", "BXY", False)]}  # members whose flattened names coincide
BUND["BX2"] = {"sigs": [("x_y", 2, "sig")], "subs": []}  # next to an instance `bq_x` of BXY: `bq` + `x_y` and `bq_x` + `y` read alike
BUND["BX2K"] = {"sigs": [("x_y", 2, "sig"), ("k", 1, "sig")], "subs": []}
BUND["BXYK"] = {"sigs": [("y", 2, "sig"), ("k", 1, "sig")], "subs": []}
BUND["Diff"] = {"sigs": [("p", 1, "sig"), ("n", 1, "sig")], "subs": [], "builtin": "Diff"}

# rule -> (generated base name, width of the generated object or None for instances)
RULES = {
    "ref_group": ("i0_a", 1),        # i1 = Inner(a=i0.a), i0.a otherwise unconnected
    "noconn": ("i0_a", 1),           # i0(a=NoConn())
    "noconn_named": ("nnn", 1),      # i0(a=NoConn(name="nnn"))
    "bundle_member": ("bb_y", 2),    # internal bundle instance bb of B1
    "bundle_port": ("pb_x", 1),      # bundle port pb of B1 on the top module
    "nested_member": ("b2_sub_y", 2),  # internal bundle instance b2 of B2
    "member_clash": ("bc_x_y", 2),   # internal bundle bc of BC: members x_y, x_y_ and x.y all want the name bc_x_y(_)
    "member_clash_port": ("pc_x_y", 2),  # the same on a bundle port of the top module
    "two_bundles": ("bq_x_y", 2),    # internal bundle instances bq (member x_y) and bq_x (member y): two invented names coincide
    "two_bundle_ports": ("bb1_x_y", 2),  # the same on two bundle ports of a middle module, the second one's member used inside
    "two_bundle_ports_first": ("bb1_x_y", 2),  # ... the first one's member used inside
    "two_bundle_ports_unused": ("bb1_x_y", 2),  # ... neither used inside: only the port list can tell
    "ref_bundle": ("g0_bp", None),   # g1 = InB(bp=g0.bp): the implicit *bundle* behind a reference to a bundle-valued port
    "ref_bundle_member": ("g0_bp_y", 2),  # ... and its flattened member
    "array_elem": ("arr_1", None),   # arr = 2 * Inner
    "pair_elem": ("pr_n", None),     # pr = Pair(Inner)
}
ADV_KINDS = ["sig", "port", "inst", "array", "binst", "ncname"]
# the object whose name starts the generated name, per rule (stretched for the length-limit cases)
TRIG_OBJ = {"ref_group": "i0", "noconn": "i0", "noconn_named": "nnn", "bundle_member": "bb", "bundle_port": "pb", "nested_member": "b2",
            "member_clash": "bc", "member_clash_port": "pc", "array_elem": "arr", "pair_elem": "pr", "ref_bundle": "g0", "ref_bundle_member": "g0",
            "two_bundles": "bq", "two_bundle_ports": "bb1", "two_bundle_ports_first": "bb1", "two_bundle_ports_unused": "bb1"}
MAXLEN = 511  # ElabPass.flatname's documented limit
SUFFIX_SETS = [c for r in (1, 2, 3) for c in itertools.combinations(("", "_", "__"), r)]


def items(tier):
    out, n = [], 0
    for rule in RULES:
        for kind in ADV_KINDS:
            for suffixes in SUFFIX_SETS:
                if tier == "quick" and kind not in ("sig", "port", "inst") and len(suffixes) == 3:
                    continue
                for order in ("before", "after"):
                    out.append((rule, kind, suffixes, order, n))
                    n += 1
    # the same one level down: the module in which the names are invented is not the top of the elaboration
    for it in list(out):
        rule, kind = it[0], it[1]
        if kind != "port" and rule != "bundle_port" and len(it[2]) <= 2 and it[3] == "before":
            out.append((rule, kind, it[2], it[3], n, None, "deep"))
            n += 1
    # the adversaries are stored a second time under their own names (`m.add(m.x)`, `m.x = m.x`) before the design is elaborated
    for it in list(out):
        if len(it) == 5 and it[1] in ("sig", "port", "inst", "array", "binst") and len(it[2]) <= 2 and it[3] == "before":
            out.append((it[0], it[1], it[2], it[3], n, None, "restored"))
            n += 1
    # at the length limit: the generated name is MAXLEN - room characters long and the designer owns every candidate up to
    # the limit (or all but the longest)
    for rule in RULES:
        for kind in (("sig", "port") if RULES[rule][1] else ("inst",)):
            for room in (0, 1, 2):
                full = tuple("_" * k for k in range(room + 1))
                for suffixes in sorted({full, full[:-1] or full, full[1:] or full}):
                    for order in ("before", "after"):
                        out.append((rule, kind, suffixes, order, n, room))
                        n += 1
    return out


def _rename(x, old, new):
    if isinstance(x, str):
        return new if x == old else x
    if isinstance(x, tuple):
        return tuple(_rename(y, old, new) for y in x)
    if isinstance(x, list):
        return [_rename(y, old, new) for y in x]
    if isinstance(x, dict):
        return {k: _rename(v, old, new) for k, v in x.items()}
    return x


def design(desc):
    rule, kind, suffixes, order, n = desc[:5]
    base, gw = RULES[rule]
    stretch = None
    deep = len(desc) > 6 and desc[6] == "deep"
    restored = len(desc) > 6 and desc[6] == "restored"
    if len(desc) > 5 and desc[5] is not None:
        old = TRIG_OBJ[rule]
        stretch = (old, old + "w" * (MAXLEN - desc[5] - len(base)))
        base = stretch[1] + base[len(old):]
    exts = dict([probe_ext(1), probe_ext(2)])
    inner, en, ed = leaf_module("Inner", [("a", 1), ("b", 2)], tag=1)
    exts[en] = ed
    mods = {"Inner": inner}
    # ---- trigger ----
    trig = [("sig", "s", 1), ("sig", "v", 2), probe("p_s", "s", 1, 2), probe("p_v", "v", 2, 3)]
    if rule == "ref_group":
        trig += [("inst", "i0", ("mod", "Inner"), [("b", sig("v"))]), ("inst", "i1", ("mod", "Inner"), [("a", pref("i0", "a")), ("b", sig("v"))])]
    elif rule == "noconn":
        trig += [("inst", "i0", ("mod", "Inner"), [("a", nc("u1")), ("b", sig("v"))])]
    elif rule == "noconn_named":
        trig += [("inst", "i0", ("mod", "Inner"), [("a", nc("u1", "nnn")), ("b", sig("v"))])]
    elif rule == "bundle_member":
        trig += [("binst", "bb", "B1"), ("inst", "i0", ("mod", "Inner"), [("a", bref("bb", "x")), ("b", bref("bb", "y"))])]
    elif rule == "bundle_port":
        trig += [("bport", "pb", "B1", False, None), ("inst", "i0", ("mod", "Inner"), [("a", bref("pb", "x")), ("b", bref("pb", "y"))])]
    elif rule == "nested_member":
        trig += [("binst", "b2", "B2"), ("inst", "i0", ("mod", "Inner"), [("a", bref("b2", "s")), ("b", bref("b2", "sub", "y"))]),
                 ("inst", "i1", ("mod", "Inner"), [("a", bref("b2", "sub", "x")), ("b", sig("v"))])]
    elif rule == "member_clash":
        trig += [("binst", "bc", "BC"),
                 ("inst", "i0", ("mod", "Inner"), [("a", bref("bc", "x_y_")), ("b", bref("bc", "x_y"))]),
                 ("inst", "i1", ("mod", "Inner"), [("a", sig("s")), ("b", bref("bc", "x", "y"))])]
    elif rule == "member_clash_port":
        # the clashing members sit on a bundle *port* of a middle module; parent and child must still agree member by member
        mods["Mid"] = {"name": "Mid", "style": "class", "decls": [
            ("bport", "pc", "BC", False, None), ("sig", "ms", 1),
            ("inst", "i0", ("mod", "Inner"), [("a", bref("pc", "x_y_")), ("b", bref("pc", "x_y"))]),
            ("inst", "i1", ("mod", "Inner"), [("a", sig("ms")), ("b", bref("pc", "x", "y"))])]}
        trig += [("binst", "pc", "BC"), ("inst", "m", ("mod", "Mid"), [("pc", ("b", "pc"))]),
                 ("inst", "t0", ("ext", "P2", {"k": 20}), [("a", bref("pc", "x_y"))]),
                 ("inst", "t1", ("ext", "P1", {"k": 21}), [("a", bref("pc", "x_y_"))]),
                 ("inst", "t2", ("ext", "P2", {"k": 22}), [("a", bref("pc", "x", "y"))])]
    elif rule == "two_bundles":
        trig += [("binst", "bq", "BX2"), ("binst", "bq_x", "BXY"),
                 ("inst", "i0", ("mod", "Inner"), [("a", sig("s")), ("b", bref("bq", "x_y"))]),
                 ("inst", "i1", ("mod", "Inner"), [("a", sig("s")), ("b", bref("bq_x", "y"))])]
    elif rule in ("two_bundle_ports", "two_bundle_ports_first"):
        used = bref("bq_x", "y") if rule == "two_bundle_ports" else bref("bq", "x_y")
        mods["Mid"] = {"name": "Mid", "style": "class", "decls": [
            ("bport", "bq", "BX2", False, None), ("bport", "bq_x", "BXY", False, None), ("sig", "ms", 1),
            ("inst", "i0", ("mod", "Inner"), [("a", sig("ms")), ("b", used)])]}
        trig += [("binst", "bb1", "BX2"), ("binst", "bb2", "BXY"), ("inst", "m", ("mod", "Mid"), [("bq", ("b", "bb1")), ("bq_x", ("b", "bb2"))]),
                 ("inst", "t0", ("ext", "P2", {"k": 20}), [("a", bref("bb1", "x_y"))]),
                 ("inst", "t1", ("ext", "P2", {"k": 22}), [("a", bref("bb2", "y"))])]
    elif rule == "two_bundle_ports_unused":
        mods["Mid"] = {"name": "Mid", "style": "class", "decls": [
            ("bport", "bq", "BX2K", False, None), ("bport", "bq_x", "BXYK", False, None), ("sig", "mv", 2),
            ("inst", "i0", ("mod", "Inner"), [("a", bref("bq", "k")), ("b", sig("mv"))]), ("inst", "i1", ("mod", "Inner"), [("a", bref("bq_x", "k")), ("b", sig("mv"))])]}
        trig += [("binst", "bb1", "BX2K"), ("binst", "bb2", "BXYK"), ("inst", "m", ("mod", "Mid"), [("bq", ("b", "bb1")), ("bq_x", ("b", "bb2"))]),
                 ("inst", "t0", ("ext", "P2", {"k": 20}), [("a", bref("bb1", "x_y"))]), ("inst", "t1", ("ext", "P2", {"k": 22}), [("a", bref("bb2", "y"))]),
                 ("inst", "t2", ("ext", "P1", {"k": 23}), [("a", bref("bb1", "k"))]), ("inst", "t3", ("ext", "P1", {"k": 24}), [("a", bref("bb2", "k"))])]
    elif rule in ("ref_bundle", "ref_bundle_member"):
        mods["InB"] = {"name": "InB", "style": "class", "decls": [
            ("bport", "bp", "B1", False, None),
            ("inst", "tx", ("ext", "P1", {"k": 31}), [("a", bref("bp", "x"))]), ("inst", "ty", ("ext", "P2", {"k": 32}), [("a", bref("bp", "y"))])]}
        trig += [("inst", "g0", ("mod", "InB"), []), ("inst", "g1", ("mod", "InB"), [("bp", pref("g0", "bp"))])]
    elif rule == "array_elem":
        trig += [("array", "arr", ("mod", "Inner"), 2, [("a", sig("s")), ("b", sig("v"))])]
    elif rule == "pair_elem":
        trig += [("pair", "pr", ("mod", "Inner"), [("a", sig("s")), ("b", sig("v"))])]
    if stretch:
        trig = _rename(trig, *stretch)
        mods = _rename(mods, *stretch)
    # ---- adversaries ----
    adv = []
    for k, suf in enumerate(suffixes):
        nm = base + suf
        w = gw or 1
        if kind == "sig":
            adv += [("sig", nm, w), probe(f"q{k}", nm, w, 10 + k)]
        elif kind == "port":
            adv += [("port", nm, w, "none"), probe(f"q{k}", nm, w, 10 + k)]
        elif kind == "inst":
            adv += [("sig", f"za{k}", 1), ("inst", nm, ("mod", "Inner"), [("a", sig(f"za{k}")), ("b", sig("v"))])]
        elif kind == "array":
            adv += [("sig", f"za{k}", 1), ("array", nm, ("mod", "Inner"), 2, [("a", sig(f"za{k}")), ("b", sig("v"))])]
        elif kind == "binst":
            adv += [("binst", nm, "B1"), ("inst", f"q{k}", ("ext", "P2", {"k": 10 + k}), [("a", bref(nm, "y"))])]
        elif kind == "ncname":
            adv += [("inst", f"zz{k}", ("mod", "Inner"), [("a", nc(f"adv{k}", nm)), ("b", sig("v"))])]
    decls = (adv + trig) if order == "before" else (trig + adv)
    mods["Top"] = {"name": "Top", "style": ["proc", "class"][n % 2], "decls": decls}
    if restored:
        return f"F8/{rule}/{kind}/restored", {"bundles": BUND, "exts": exts, "modules": mods, "top": "Top", "restore": [("Top", base + suf) for suf in suffixes]}
    if deep:
        mods["Outer"] = {"name": "Outer", "style": "proc", "decls": [("sig", "os", 1), probe("p_os", "os", 1, 40), ("inst", "t", ("mod", "Top"), [])]}
        return f"F8/{rule}/{kind}/deep", {"bundles": BUND, "exts": exts, "modules": mods, "top": "Outer"}
    return f"F8/{rule}/{kind}" + ("/limit" if stretch else ""), {"bundles": BUND, "exts": exts, "modules": mods, "top": "Top"}
