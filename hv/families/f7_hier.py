"""
F7 — hierarchy: depth 3 (Top > Mid > Deep > leaf), sub-modules shared between parents and between levels, ports
re-sliced / re-concatenated at every level, a bundle port passed down through the middle level, internal nets at every
level, references between siblings.  All combinations of small per-port connection menus and sharing patterns.
"""

import itertools
from .base import *
from .f4_bundles import BUNDLES, bref, anon, b


def mods_and_exts(mid_variant, deep_variant):
    exts = dict([probe_ext(1), probe_ext(2), probe_ext(3)])
    L, en, ed = leaf_module("L", [("a", 2), ("b", 1)], tag=1)
    exts[en] = ed
    mods = {"L": L}
    # Deep: ports d(3), e(1); one or two L instances, an internal net
    dd = [("port", "d", 3, "none"), ("port", "e", 1, "none"), ("sig", "z", 1), probe("pz", "z", 1, 2)]
    if deep_variant == 0:
        dd.append(("inst", "l0", ("mod", "L"), [("a", rng(sig("d"), 0, 2)), ("b", sig("z"))]))
        dd.append(("inst", "l1", ("mod", "L"), [("a", cat(idx(sig("d"), 2), sig("e"))), ("b", pref("l0", "b"))]))
    else:
        dd.append(("inst", "l0", ("mod", "L"), [("a", cat(sig("e"), idx(sig("d"), 1))), ("b", idx(sig("d"), 0))]))
        dd.append(("inst", "r", ("prim", "R", {"r": 3}), [("p", idx(sig("d"), 2)), ("n", sig("z"))]))
    mods["Deep"] = {"name": "Deep", "style": "class", "decls": dd}
    # Mid: ports p(3), q(1), bundle port bq(B1); instances of Deep and L, passes bundle members down
    md = [("port", "p", 3, "none"), ("port", "q", 1, "none"), ("bport", "bq", "B1", False, None), ("sig", "w", 2), probe("pw", "w", 2, 3)]
    if mid_variant == 0:
        md.append(("inst", "dp", ("mod", "Deep"), [("d", sig("p")), ("e", sig("q"))]))
        md.append(("inst", "lm", ("mod", "L"), [("a", bref("bq", "y")), ("b", bref("bq", "x"))]))
        md.append(("inst", "lw", ("mod", "L"), [("a", sig("w")), ("b", idx(sig("w"), 0))]))
    elif mid_variant == 1:
        md.append(("inst", "dp", ("mod", "Deep"), [("d", cat(bref("bq", "y"), sig("q"))), ("e", idx(sig("p"), 1))]))
        md.append(("inst", "dq", ("mod", "Deep"), [("d", cat(idx(sig("p"), 2), sig("w"))), ("e", bref("bq", "x"))]))
        md.append(("inst", "lm", ("mod", "L"), [("a", rng(sig("p"), 0, 2)), ("b", pref("dq", "e"))]))
    else:
        md.append(("inst", "dp", ("mod", "Deep"), [("d", cat(sig("w"), sig("q"))), ("e", bref("bq", "x"))]))
        md.append(("array", "la", ("mod", "L"), 2, [("a", cat(bref("bq", "y"), rng(sig("p"), 1, 3))), ("b", idx(sig("p"), 0))]))
    mods["Mid"] = {"name": "Mid", "style": "proc", "decls": md}
    return mods, exts


def top_menus():
    p_opts = [sig("t"), cat(sig("v"), sig("s")), cat(sig("s"), rng(sig("t"), 1, 3)), pref("m0", "p")]
    q_opts = [sig("s"), idx(sig("t"), 2), pref("m0", "q"), pref("lt", "b")]
    bq_opts = [b("bb"), anon(x=sig("s"), y=sig("v")), anon(x=idx(sig("t"), 0), y=bref("bb", "y")), pref("m0", "bq"), b("pb")]
    return p_opts, q_opts, bq_opts


def items(tier):
    out, n = [], 0
    P, Q, BQ = top_menus()
    for mv in range(3):
        for dv in range(2):
            for nm in (1, 2):
                rngs = [range(len(P) - 1), range(len(Q) - 2), range(len(BQ) - 2)]  # m0 cannot refer to itself
                if nm == 2:
                    rngs += [range(len(P)), range(len(Q)), range(len(BQ))]
                for ix in itertools.product(*rngs):
                    out.append((mv, dv, nm, ix, n))
                    n += 1
    return out


def design(desc):
    mv, dv, nm, ix, n = desc
    P, Q, BQ = top_menus()
    mods, exts = mods_and_exts(mv, dv)
    decls = []
    for s_, w in [("s", 1), ("v", 2), ("t", 3)]:
        decls.append(("sig", s_, w))
        decls.append(probe("p_" + s_, s_, w, 5))
    decls += [("binst", "bb", "B1"), ("bport", "pb", "B1", False, None), ("port", "tp", 1, "none")]
    conns0 = [("p", P[ix[0]]), ("q", Q[ix[1]]), ("bq", BQ[ix[2]])]
    decls.append(("inst", "m0", ("mod", "Mid"), conns0))
    uses = ""
    if nm == 2:
        conns1 = [("p", P[ix[3]]), ("q", Q[ix[4]]), ("bq", BQ[ix[5]])]
        decls.append(("inst", "m1", ("mod", "Mid"), conns1))
        uses = repr(conns1)
    lt = [("a", cat(sig("tp"), idx(sig("v"), 0)))]
    if "'lt', 'b'" not in uses:
        lt.append(("b", sig("tp")))
    decls.append(("inst", "lt", ("mod", "L"), lt))
    mods["Top"] = {"name": "Top", "style": ["proc", "class", "gen"][n % 3], "decls": decls}
    return f"F7/m{mv}d{dv}n{nm}", {"bundles": BUNDLES, "exts": exts, "modules": mods, "top": "Top"}
