"""
Design DAGs with shared sub-modules used by the history (C07), fault (C08) and ordering (C12) explorations.
Each returns a design description whose `modules` dict also contains tops that are not reachable from `top`.
"""

from .base import *
from .f4_bundles import BUNDLES, bref, anon, b


def dag1():
    """Bundles + port references: L leaf, M mid (bundle port passed down, sibling references), A and B both use M and L,
    T uses A, B and L; T2 is a second top sharing A and L."""
    exts = dict([probe_ext(1), probe_ext(2)])
    L, en, ed = leaf_module("L", [("a", 1), ("b", 2)], tag=1)
    exts[en] = ed
    LB = {"name": "LB", "style": "class", "decls": [
        ("bport", "bp", "B1", False, None), ("port", "c", 1, "none"),
        ("inst", "tx", ("ext", "P1", {"k": 2}), [("a", bref("bp", "x"))]),
        ("inst", "ty", ("ext", "P2", {"k": 3}), [("a", bref("bp", "y"))]),
        ("inst", "tc", ("ext", "P1", {"k": 4}), [("a", sig("c"))]),
    ]}
    M = {"name": "M", "style": "proc", "decls": [
        ("port", "p", 2, "none"), ("bport", "bq", "B1", False, None), ("sig", "w", 1),
        ("inst", "l0", ("mod", "L"), [("b", sig("p"))]),
        ("inst", "l1", ("mod", "L"), [("a", pref("l0", "a")), ("b", bref("bq", "y"))]),
        ("inst", "lb", ("mod", "LB"), [("bp", b("bq")), ("c", sig("w"))]),
        ("inst", "pw", ("ext", "P1", {"k": 5}), [("a", sig("w"))]),
    ]}
    A = {"name": "A", "style": "class", "decls": [
        ("port", "q", 2, "none"), ("binst", "bb", "B1"),
        ("inst", "m", ("mod", "M"), [("p", sig("q")), ("bq", b("bb"))]),
        ("inst", "l", ("mod", "L"), [("a", bref("bb", "x")), ("b", cat(idx(sig("q"), 1), idx(sig("q"), 0)))]),
        # the same value as B's `ps` parameter, a float here and a prefixed number there (equal and hash-equal in Python)
        ("inst", "pa", ("ext", "P1", {"k": 6.0}), [("a", bref("bb", "x"))]),
    ]}
    B = {"name": "B", "style": "proc", "decls": [
        ("port", "q", 2, "none"), ("sig", "s", 1),
        ("inst", "m0", ("mod", "M"), [("p", sig("q")), ("bq", anon(x=sig("s"), y=sig("q")))]),
        ("inst", "m1", ("mod", "M"), [("p", pref("m0", "p")), ("bq", pref("m0", "bq"))]),
        ("inst", "ps", ("ext", "P1", {"k": ("pre", "6", 0)}), [("a", sig("s"))]),
    ]}
    T = {"name": "T", "style": "class", "decls": [
        ("sig", "v", 2), ("sig", "u", 2), ("port", "tp", 1, "none"),
        ("inst", "a", ("mod", "A"), [("q", sig("v"))]),
        ("inst", "bi", ("mod", "B"), [("q", sig("u"))]),
        ("inst", "l", ("mod", "L"), [("a", sig("tp")), ("b", cat(idx(sig("v"), 0), idx(sig("u"), 1)))]),
        ("inst", "pv", ("ext", "P2", {"k": 7}), [("a", sig("v"))]),
        ("inst", "pu", ("ext", "P2", {"k": 8}), [("a", sig("u"))]),
    ]}
    T2 = {"name": "T2", "style": "proc", "decls": [
        ("sig", "z", 2),
        ("inst", "a", ("mod", "A"), [("q", sig("z"))]),
        ("inst", "l", ("mod", "L"), [("a", nc("n1")), ("b", sig("z"))]),
        ("inst", "pz", ("ext", "P2", {"k": 9}), [("a", sig("z"))]),
        # a reference group whose implicit net gets the very name (`l0_a`) that M, two levels down, needs for one of its own
        ("inst", "l0", ("mod", "L"), [("b", sig("z"))]),
        ("inst", "l1", ("mod", "L"), [("a", pref("l0", "a")), ("b", sig("z"))]),
    ]}
    # C2: two M instances whose bundle ports are tied port-to-port only (an implicit bundle-valued net, no explicit Bundle)
    C2 = {"name": "C2", "style": "class", "decls": [
        ("port", "q", 2, "none"),
        ("inst", "m0", ("mod", "M"), [("p", sig("q"))]),
        ("inst", "m1", ("mod", "M"), [("p", sig("q")), ("bq", pref("m0", "bq"))]),
    ]}
    mods = {"L": L, "LB": LB, "M": M, "A": A, "B": B, "C2": C2, "T": T, "T2": T2}
    return {"bundles": BUNDLES, "exts": exts, "modules": mods, "top": "T"}


def dag2():
    """Arrays, pairs, no-connects, nested bundle: K leaf, N mid with an array and a pair of K, a no-connect and a nested
    bundle port; P and Q tops sharing N."""
    exts = dict([probe_ext(1), probe_ext(2), probe_ext(4)])
    K, en, ed = leaf_module("K", [("a", 1), ("b", 2)], tag=1)
    exts[en] = ed
    bund = dict(BUNDLES)
    bund["Diff"] = {"sigs": [("p", 1, "sig"), ("n", 1, "sig")], "subs": [], "builtin": "Diff"}
    N = {"name": "N", "style": "class", "decls": [
        ("port", "p", 4, "none"), ("bport", "b2", "B2", False, None), ("binst", "d", "Diff"), ("sig", "w", 2),
        ("array", "arr", ("mod", "K"), 2, [("a", bref("b2", "s")), ("b", sig("p"))]),
        ("pair", "pr", ("mod", "K"), [("a", b("d")), ("b", bref("b2", "sub", "y"))]),
        ("inst", "k0", ("mod", "K"), [("a", nc("n1")), ("b", sig("w"))]),
        ("inst", "k1", ("mod", "K"), [("a", bref("b2", "sub", "x")), ("b", pref("k0", "b"))]),
        ("inst", "pd", ("ext", "P1", {"k": 2}), [("a", bref("d", "p"))]),
        ("inst", "pn", ("ext", "P1", {"k": 3}), [("a", bref("d", "n"))]),
    ]}
    P = {"name": "P", "style": "proc", "decls": [
        ("sig", "t", 4), ("binst", "bb", "B2"),
        ("inst", "n0", ("mod", "N"), [("p", sig("t")), ("b2", b("bb"))]),
        ("inst", "n1", ("mod", "N"), [("p", cat(rng(sig("t"), 2, 4), rng(sig("t"), 0, 2))), ("b2", pref("n0", "b2"))]),
        ("inst", "pt", ("ext", "P4", {"k": 4}), [("a", sig("t"))]),
    ]}
    Q = {"name": "Q", "style": "class", "decls": [
        ("port", "qp", 4, "none"), ("sig", "s", 1), ("sig", "v", 2),
        ("inst", "n", ("mod", "N"), [("p", sig("qp")), ("b2", anon(s=sig("s"), sub=anon(x=idx(sig("qp"), 0), y=sig("v"))))]),
        ("inst", "k", ("mod", "K"), [("a", sig("s")), ("b", sig("v"))]),
    ]}
    mods = {"K": K, "N": N, "P": P, "Q": Q}
    return {"bundles": bund, "exts": exts, "modules": mods, "top": "P"}


def dag1h():
    """dag1 with one more healthy, non-leaf module H that T instantiates *after* A and B - so that a fault below A and B
    (in M) leaves H for last.  Used by the fault explorations only (the history explorations keep to DAGS)."""
    d = dag1()
    d["modules"] = dict(d["modules"])
    H = {"name": "H", "style": "proc", "decls": [
        ("port", "q", 2, "none"), ("sig", "hs", 1), ("binst", "hb", "B1"),
        ("inst", "l0", ("mod", "L"), [("a", sig("hs")), ("b", sig("q"))]),
        ("array", "la", ("mod", "L"), 2, [("a", bref("hb", "x")), ("b", bref("hb", "y"))]),
        ("inst", "ph", ("ext", "P1", {"k": 12}), [("a", sig("hs"))]),
    ]}
    T = dict(d["modules"]["T"])
    T["decls"] = list(T["decls"]) + [("inst", "hh", ("mod", "H"), [("q", sig("u"))])]
    mods = {}
    for k, v in d["modules"].items():
        if k == "T":
            mods["H"] = H
            mods["T"] = T
        else:
            mods[k] = v
    d["modules"] = mods
    return d


DAGS = {"dag1": dag1, "dag2": dag2}
ALL = {"dag1": dag1, "dag2": dag2, "dag1h": dag1h}


def with_top(design, top):
    d = dict(design)
    d["top"] = top
    return d
