"""
F3 — no-connects: fresh / named, on scalar and bus ports (bundle ports are in F4), mixed with signals and references.
Shared no-connect objects and referenced no-connects are ill-formed (kept for C02, skipped here by the reference).
"""

import itertools
from .base import *


def menu(i, port, w):
    other = 1 - i
    base = [sig("s1") if w == 1 else sig("v"), nc(f"f{i}{port}"), nc(f"n{i}{port}", f"nn_{i}{port}"), nc("shared"), pref(f"i{other}", port), None]
    if w == 2:
        base.append(cat(sig("s1"), sig("s2")))
    return base


def items(tier):
    out = []
    n = 0
    for w in (1, 2):
        menus = [menu(i, p, w) for i in range(2) for p in ("a", "b")]
        for ix in itertools.product(*[range(len(m)) for m in menus]):
            out.append((w, ix, n))
            n += 1
    return out


def design(desc):
    w, ix, n = desc
    menus = [menu(i, p, w) for i in range(2) for p in ("a", "b")]
    assign = [m[i] for m, i in zip(menus, ix)]
    inner, ename, edef = leaf_module("Inner", [("a", w), ("b", w)], tag=2)
    exts = {ename: edef}
    decls = []
    for nm, ww in [("s1", 1), ("s2", 1), ("v", 2)]:
        decls.append(("sig", nm, ww))
        en, ed = probe_ext(ww)
        exts[en] = ed
        decls.append(probe("p_" + nm, nm, ww, tag=9))
    for i in range(2):
        conns = [(p, e) for p, e in zip(("a", "b"), assign[2 * i : 2 * i + 2]) if e is not None]
        decls.append(("inst", f"i{i}", ("mod", "Inner"), conns))
    top = {"name": "Top", "style": ["proc", "class", "gen"][n % 3], "decls": decls}
    return f"F3/w{w}", {"bundles": {}, "exts": exts, "modules": {"Inner": inner, "Top": top}, "top": "Top"}
