"""
F5 — instance arrays: n in 1..3, port width 1..2, each port fed with the broadcast width w or the per-element width n*w,
by signal / slice / concat / reference to a non-array instance; arrays of primitives, of external modules, of modules,
and of a module that itself contains an array.
"""

import itertools
from .base import *


def conn_menu(w, n, total):
    """Expressions of width w (broadcast) and n*w (per element) over parent signals s(1), v(2), t(6)."""
    out = []
    for width in sorted({w, n * w}):
        if width == 1:
            out += [sig("s"), idx(sig("v"), 1), idx(sig("t"), 4), pref("solo", "a")]
        elif width == 2:
            out += [sig("v"), rng(sig("t"), 2, 4), cat(sig("s"), idx(sig("t"), 5)), cat(idx(sig("v"), 1), idx(sig("v"), 0)), pref("solo", "b")]
        elif width == 3:
            out += [rng(sig("t"), 1, 4), cat(sig("v"), sig("s")), cat(sig("s"), sig("s"), idx(sig("t"), 0)), rng(cat(sig("t"), sig("v")), 4, 7)]
        elif width == 4:
            out += [rng(sig("t"), None, 4), cat(sig("v"), sig("v")), cat(rng(sig("t"), 4, 6), sig("v"))]
        elif width == 6:
            out += [sig("t"), cat(rng(sig("t"), 3, 6), rng(sig("t"), 0, 3)), cat(sig("v"), sig("v"), sig("v"))]
    out += [nc("N"), nc("NN", "ncnamed")]
    return out


KINDS = ["mod", "ext", "prim", "nested"]


BUNDLE_FORMS = [("b", "bb"), ("anon", [("x", ("sig", "s")), ("y", ("sig", "v"))]), ("bref", "b2", ["sub"]),
                ("anon", [("x", ("idx", ("sig", "t"), 3)), ("y", ("bref", "bb", ["y"]))]), ("dict", [("x", ("sig", "s")), ("y", ("rng", ("sig", "t"), 0, 2, None))]),
                ("b", "pbb"), ("pref", "solob", "bp")]


def items(tier):
    out = []
    k = 0
    for n in (1, 2, 3):
        for ib in range(len(BUNDLE_FORMS) + 2):  # + two forms whose members are wired per element (n times the member's width)
            for cw in range(3):
                out.append(("bundle", n, 1, ib, cw, k))
                k += 1
    # pure reference cycles between a plain instance and an array (no signal in the group), both ways of writing the array
    for n in (1, 2, 3):
        for kind in ("mod", "ext", "prim"):
            for form in ("ctor", "mult"):
                for who in ("both", "solo_refs_arr", "arr_refs_solo"):
                    out.append(("cycle", n, 1, kind, (form, who), k))
                    k += 1
    for kind in KINDS:
        for n in (1, 2, 3):
            for w in ((1, 2) if kind != "prim" else (1,)):
                m = conn_menu(w, n, 6)
                for ia, ib in itertools.product(range(len(m)), repeat=2):
                    out.append((kind, n, w, ia, ib, k))
                    k += 1
    # more than ten elements (element names `arr_10`, `arr_11` sort before `arr_2`), fed per element
    for n in (11, 12):
        for kind in ("mod", "ext", "prim"):
            for feed in ("range", "reversed", "both"):
                out.append(("big", n, 1, kind, feed, k))
                k += 1
    return out


def design_big(desc):
    _b, n, w, kind, feed, k = desc
    exts, mods = {}, {}
    decls = []
    for nm, ww in [("s", 1), ("u", 12), ("x", 12)]:
        decls.append(("sig", nm, ww))
        en, ed = probe_ext(ww)
        exts[en] = ed
        decls.append(probe("p_" + nm, nm, ww, tag=4))
    fwd = rng(sig("u"), 0, n)
    rev = cat(*[idx(sig("x"), n - 1 - j) for j in range(n)])  # element j gets x[j]... written bit by bit, MSB-first
    ea, eb = {"range": (fwd, sig("s")), "reversed": (sig("s"), rev), "both": (fwd, rev)}[feed]
    if kind == "mod":
        inner, en, ed = leaf_module("Inner", [("a", 1), ("b", 1)], tag=1)
        mods["Inner"] = inner
        exts[en] = ed
        target, pa, pb = ("mod", "Inner"), "a", "b"
    elif kind == "ext":
        exts["L_a1_b1"] = ext_leaf([("a", 1), ("b", 1)])
        target, pa, pb = ("ext", "L_a1_b1", {"k": 6}), "a", "b"
    else:
        target, pa, pb = ("prim", "R", {"r": 11}), "p", "n"
    decls.append(("array", "arr", target, n, [(pa, ea), (pb, eb)]))
    mods["Top"] = {"name": "Top", "style": ["proc", "class", "gen"][k % 3], "decls": decls}
    if (k // 3) % 2 == 1:
        mods["Top"]["array_form"] = "mult"
    return "F5/big", {"bundles": {}, "exts": exts, "modules": mods, "top": "Top"}


def design_bundle(desc):
    """An array of a module with a bundle-valued port: every element gets the same bundle (broadcast); its scalar port is
    fed with the broadcast or the per-element width."""
    from .f4_bundles import BUNDLES, bref
    from ..refsem import bundle_leaves

    kind, n, w, ib, cw, k = desc
    exts = dict([probe_ext(1), probe_ext(2), probe_ext(6)])
    inb = {"name": "InB", "style": "class", "decls": [
        ("bport", "bp", "B1", False, None), ("port", "c", 1, "none"),
        ("inst", "tx", ("ext", "P1", {"k": 1}), [("a", bref("bp", "x"))]),
        ("inst", "ty", ("ext", "P2", {"k": 2}), [("a", bref("bp", "y"))]),
        ("inst", "tc", ("ext", "P1", {"k": 3}), [("a", sig("c"))])]}
    cexpr = [sig("s"), rng(sig("t"), 0, n), cat(*[idx(sig("t"), 5 - j) for j in range(n)])][cw]
    decls = []
    for nm, ww in [("s", 1), ("v", 2), ("t", 6)]:
        decls.append(("sig", nm, ww))
        decls.append(probe("p_" + nm, nm, ww, tag=4))
    decls += [("binst", "bb", "B1"), ("binst", "b2", "B2"), ("bport", "pbb", "B1", False, None), ("binst", "sb", "B1"),
              ("inst", "solob", ("mod", "InB"), [("c", sig("s"))] + ([] if ib < len(BUNDLE_FORMS) and BUNDLE_FORMS[ib][0] == "pref" else [("bp", ("b", "sb"))]))]
    forms = BUNDLE_FORMS + [("anon", [("x", rng(sig("t"), 0, n)), ("y", sig("v"))]),
                            ("anon", [("x", sig("s")), ("y", rng(sig("t"), 0, 2 * n))])]
    decls.append(("array", "arr", ("mod", "InB"), n, [("bp", forms[ib]), ("c", cexpr)]))
    top = {"name": "Top", "style": ["proc", "class", "gen"][k % 3], "decls": decls}
    return "F5/bundle", {"bundles": BUNDLES, "exts": exts, "modules": {"InB": inb, "Top": top}, "top": "Top"}


def design(desc):
    if desc[0] == "bundle":
        return design_bundle(desc)
    if desc[0] == "big":
        return design_big(desc)
    cyc = None
    if desc[0] == "cycle":
        _c, n, w, kind, cyc, k = desc
        pa_ = "p" if kind == "prim" else "a"
        ea = pref("solo", "a") if cyc[1] != "solo_refs_arr" else None
        eb = idx(sig("t"), 2)
        m = None
    else:
        kind, n, w, ia, ib, k = desc
        m = conn_menu(w, n, 6)
        ea, eb = m[ia], m[ib]
    return _design(kind, n, w, ea, eb, k, cyc)


def _design(kind, n, w, ea, eb, k, cyc):
    if ea is not None and ea[0] == "nc":
        ea = nc(ea[1] + "a", ea[2] and ea[2] + "_a")
    if eb[0] == "nc":
        eb = nc(eb[1] + "b", eb[2] and eb[2] + "_b")
    exts, mods = {}, {}
    decls = []
    for nm, ww in [("s", 1), ("v", 2), ("t", 6)]:
        decls.append(("sig", nm, ww))
        en, ed = probe_ext(ww)
        exts[en] = ed
        decls.append(probe("p_" + nm, nm, ww, tag=4))
    # the non-array instance whose ports may be referenced
    solo, en, ed = leaf_module("Solo", [("a", 1), ("b", 2)], tag=8)
    mods["Solo"] = solo
    exts[en] = ed
    solo_conns = []
    uses = repr(ea) + repr(eb)
    if cyc and cyc[1] != "arr_refs_solo":
        solo_conns.append(("a", pref("arr", "p" if kind == "prim" else "a")))
    elif "'solo', 'a'" not in uses:
        solo_conns.append(("a", sig("s")))
    if "'solo', 'b'" not in uses:
        solo_conns.append(("b", sig("v")))
    decls.append(("inst", "solo", ("mod", "Solo"), solo_conns))
    if kind == "mod":
        inner, en, ed = leaf_module("Inner", [("a", w), ("b", w)], tag=1)
        mods["Inner"] = inner
        exts[en] = ed
        target = ("mod", "Inner")
        pa, pb = "a", "b"
    elif kind == "ext":
        exts[f"L_a{w}_b{w}"] = ext_leaf([("a", w), ("b", w)])
        target = ("ext", f"L_a{w}_b{w}", {"k": 6})
        pa, pb = "a", "b"
    elif kind == "prim":
        target = ("prim", "R", {"r": 11})
        pa, pb = "p", "n"
    else:  # array of a module that contains an array of two leaves fed per element
        exts[f"L_a{w}"] = ext_leaf([("a", w)])
        inner = {"name": "Inner", "style": "class", "decls": [
            ("port", "a", w, "none"), ("port", "b", w, "none"),
            ("array", "arr", ("ext", f"L_a{w}", {"k": 2}), 2, [("a", cat(sig("a"), sig("b")))]),
        ]}
        mods["Inner"] = inner
        target = ("mod", "Inner")
        pa, pb = "a", "b"
    decls.append(("array", "arr", target, n, ([(pa, ea)] if ea is not None else []) + [(pb, eb)]))
    mods["Top"] = {"name": "Top", "style": ["proc", "class", "gen"][k % 3], "decls": decls}
    # every other design writes its arrays as `n * Target(conns)`
    if (cyc and cyc[0] == "mult") or (not cyc and (k // 3) % 2 == 1):
        mods["Top"]["array_form"] = "mult"
    return f"F5/{kind}" + ("/cycle" if cyc else ""), {"bundles": {}, "exts": exts, "modules": mods, "top": "Top"}
