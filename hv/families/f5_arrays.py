"""
F5 — instance arrays: n in 1..3, port width 1..2, each port fed with the broadcast width w or the per-element width n*w,
by signal / slice / concat / reference to a non-array instance; arrays of primitives, of external modules, of modules,
and of a module that itself contains an array.
"""

import itertools
from .base import *


def conn_menu(w, n, total):
    """Expressions of width w (broadcast) and n*w (per element) over parent signals s(1), v(2), t(6)."""
    out = []
    for width in sorted({w, n * w}):
        if width == 1:
            out += [sig("s"), idx(sig("v"), 1), idx(sig("t"), 4), pref("solo", "a")]
        elif width == 2:
            out += [sig("v"), rng(sig("t"), 2, 4), cat(sig("s"), idx(sig("t"), 5)), cat(idx(sig("v"), 1), idx(sig("v"), 0)), pref("solo", "b")]
        elif width == 3:
            out += [rng(sig("t"), 1, 4), cat(sig("v"), sig("s")), cat(sig("s"), sig("s"), idx(sig("t"), 0)), rng(cat(sig("t"), sig("v")), 4, 7)]
        elif width == 4:
            out += [rng(sig("t"), None, 4), cat(sig("v"), sig("v")), cat(rng(sig("t"), 4, 6), sig("v"))]
        elif width == 6:
            out += [sig("t"), cat(rng(sig("t"), 3, 6), rng(sig("t"), 0, 3)), cat(sig("v"), sig("v"), sig("v"))]
    out += [nc("N"), nc("NN", "ncnamed")]
    return out


KINDS = ["mod", "ext", "prim", "nested"]


def items(tier):
    out = []
    k = 0
    for kind in KINDS:
        for n in (1, 2, 3):
            for w in ((1, 2) if kind != "prim" else (1,)):
                m = conn_menu(w, n, 6)
                for ia, ib in itertools.product(range(len(m)), repeat=2):
                    out.append((kind, n, w, ia, ib, k))
                    k += 1
    return out


def design(desc):
    kind, n, w, ia, ib, k = desc
    m = conn_menu(w, n, 6)
    ea, eb = m[ia], m[ib]
    if ea[0] == "nc":
        ea = nc(ea[1] + "a", ea[2] and ea[2] + "_a")
    if eb[0] == "nc":
        eb = nc(eb[1] + "b", eb[2] and eb[2] + "_b")
    exts, mods = {}, {}
    decls = []
    for nm, ww in [("s", 1), ("v", 2), ("t", 6)]:
        decls.append(("sig", nm, ww))
        en, ed = probe_ext(ww)
        exts[en] = ed
        decls.append(probe("p_" + nm, nm, ww, tag=4))
    # the non-array instance whose ports may be referenced
    solo, en, ed = leaf_module("Solo", [("a", 1), ("b", 2)], tag=8)
    mods["Solo"] = solo
    exts[en] = ed
    solo_conns = []
    uses = repr(ea) + repr(eb)
    if "'solo', 'a'" not in uses:
        solo_conns.append(("a", sig("s")))
    if "'solo', 'b'" not in uses:
        solo_conns.append(("b", sig("v")))
    decls.append(("inst", "solo", ("mod", "Solo"), solo_conns))
    if kind == "mod":
        inner, en, ed = leaf_module("Inner", [("a", w), ("b", w)], tag=1)
        mods["Inner"] = inner
        exts[en] = ed
        target = ("mod", "Inner")
        pa, pb = "a", "b"
    elif kind == "ext":
        exts[f"L_a{w}_b{w}"] = ext_leaf([("a", w), ("b", w)])
        target = ("ext", f"L_a{w}_b{w}", {"k": 6})
        pa, pb = "a", "b"
    elif kind == "prim":
        target = ("prim", "R", {"r": 11})
        pa, pb = "p", "n"
    else:  # array of a module that contains an array of two leaves fed per element
        exts[f"L_a{w}"] = ext_leaf([("a", w)])
        inner = {"name": "Inner", "style": "class", "decls": [
            ("port", "a", w, "none"), ("port", "b", w, "none"),
            ("array", "arr", ("ext", f"L_a{w}", {"k": 2}), 2, [("a", cat(sig("a"), sig("b")))]),
        ]}
        mods["Inner"] = inner
        target = ("mod", "Inner")
        pa, pb = "a", "b"
    decls.append(("array", "arr", target, n, [(pa, ea), (pb, eb)]))
    mods["Top"] = {"name": "Top", "style": ["proc", "class", "gen"][k % 3], "decls": decls}
    return f"F5/{kind}", {"bundles": {}, "exts": exts, "modules": mods, "top": "Top"}
