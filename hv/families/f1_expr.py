"""
F1 — expression trees: one leaf with a w-bit port fed by every slice/concat expression tree over parent signals
x(2), y(3) up to a depth bound.  Parent bits are observable through probes.
"""

from .base import *

ENV = {"x": ["x0", "x1"], "y": ["y0", "y1", "y2"]}


def slices_of(e, w, steps=(None,), full=True):
    """Every int index and every range with bounds in [-w, w] ∪ {None} that selects something."""
    for i in range(-w, w):
        yield idx(e, i)
    bounds = [None] + list(range(-w, w + 1))
    for s in steps:
        for a in bounds:
            for b in bounds:
                r = list(range(w))[slice(a, b, s)]
                if r:
                    yield rng(e, a, b, s)


def few_slices_of(e, w):
    """A reduced spelling set used at depth 2: non-negative explicit bounds, one negative and one open form."""
    for i in range(w):
        yield idx(e, i)
    if w >= 1:
        yield idx(e, -1)
    for a in range(w):
        for b in range(a + 1, w + 1):
            if (a, b) != (0, w):
                yield rng(e, a, b, None)
    yield rng(e, None, None, None)
    if w >= 2:
        yield rng(e, 1, None, None)
        yield rng(e, None, -1, None)


def exprs(depth, final_width=4, inter_width=8, all_spellings=False, steps=(None,)):
    """All expression trees up to `depth` (2 or 3), as (expr, bit list).  Level 1 uses every index spelling; deeper
    levels operate on one representative per (shape, value) of the previous level."""
    atoms = [sig("x"), sig("y")]
    level0 = [(a, list_eval(a, ENV)) for a in atoms]
    levels = [level0]
    for d in range(1, depth + 1):
        prev = levels[-1] if d == 1 else dedupe_by_shape_value(levels[-1])
        older = [p for lv in levels[:-1] for p in lv]
        older = older if d == 1 else dedupe_by_shape_value(older)
        new = []
        for e, v in prev:
            gen = slices_of(e, len(v), steps=(steps if d == 1 else (None,))) if (d == 1 or all_spellings) else few_slices_of(e, len(v))
            for s in gen:
                new.append((s, list_eval(s, ENV)))
        for a, va in prev:
            for b, vb in prev:
                if len(va) + len(vb) <= inter_width:
                    new.append((cat(a, b), va + vb))
            for b, vb in older:
                if len(va) + len(vb) <= inter_width:
                    new.append((cat(a, b), va + vb))
                    new.append((cat(b, a), vb + va))
        if d == 1:
            for a, va in level0:
                for b, vb in level0:
                    for c, vc in level0:
                        if len(va) + len(vb) + len(vc) <= inter_width:
                            new.append((cat(a, b, c), va + vb + vc))
        seen, uniq = set(), []
        for e, v in new:
            k = repr(e)
            if k not in seen and v is not None:
                seen.add(k)
                uniq.append((e, v))
        levels.append(uniq)
    return [p for lv in levels for p in lv if len(p[1]) <= final_width]


def shape(e):
    if e[0] == "sig":
        return "s"
    if e[0] in ("idx", "rng"):
        return e[0][0] + "(" + shape(e[1]) + ")"
    return "c(" + ",".join(shape(p) for p in e[1]) + ")"


def dedupe_by_shape_value(pairs):
    seen, out = set(), []
    for e, v in pairs:
        k = (shape(e), tuple(v))
        if k not in seen:
            seen.add(k)
            out.append((e, v))
    return out


def design_for(e, w, style="proc", via_module=False):
    """Top with x(2), y(3) probed, and the expression connected to a w-bit leaf port (directly or through a Module)."""
    exts = dict([probe_ext(2), probe_ext(3)])
    exts[f"L_a{w}"] = ext_leaf([("a", w)])
    mods = {}
    decls = [("sig", "x", 2), ("sig", "y", 3), probe("px", "x", 2, 1), probe("py", "y", 3, 0)]  # a zero-valued parameter must be exported as any other
    if via_module:
        inner, _en, _ed = leaf_module("Inner", [("a", w)], tag=5)
        mods["Inner"] = inner
        decls.append(("inst", "i", ("mod", "Inner"), [("a", e)]))
    else:
        decls.append(("inst", "i", ("ext", f"L_a{w}", {"k": 5}), [("a", e)]))
    mods["Top"] = {"name": "Top", "style": style, "decls": decls}
    return {"bundles": {}, "exts": exts, "modules": mods, "top": "Top"}


def items(tier):
    thorough = tier == "thorough"
    # strided and reversed ranges (steps -1, 2, -2) at the first level, unit steps above
    es = exprs(3, final_width=6, steps=(None, -1, 2, -2)) if thorough else exprs(2, final_width=6, all_spellings=True, steps=(None, -1, 2))
    return [(e, len(v), n) for n, (e, v) in enumerate(es)]


def design(desc):
    e, w, n = desc
    return f"F1/{shape(e)}", design_for(e, w, ["proc", "class", "gen"][n % 3], via_module=(n % 2 == 1))
