"""
F4 — bundles: two children with a bundle-valued port (B1 flat, B2 nested, B3 with a flipped sub-bundle), every leaf member
tapped by a probe; the parent feeds each port by every documented form: bundle instance (made by constructor, `n * B()`,
`flipped()`, `copy`, structurally-equal definition, the parent's own bundle port), sub-bundle reference, anonymous bundle
of signals / slices / concats / bundle references / port references / bundle instances / nested anonymous bundles,
top-level dict shorthand, reference to the other child's bundle port, no-connect.  All ordered pairs of forms.
"""

import itertools
from .base import *

BUNDLES = {
    "B1": {"sigs": [("x", 1, "sig"), ("y", 2, "sig")], "subs": []},
    "B1b": {"sigs": [("x", 1, "sig"), ("y", 2, "sig")], "subs": []},
    "B2": {"sigs": [("s", 1, "sig")], "subs": [("sub", "B1", False)]},
    "B3": {"sigs": [], "subs": [("p", "B1", False), ("q", "B1", True)]},
}


def b(n):
    return ("b", n)


def bref(n, *path):
    return ("bref", n, list(path))


def anon(**kw):
    return ("anon", list(kw.items()))


def dct(**kw):
    return ("dict", list(kw.items()))


def forms(bname, i):
    o = 1 - i
    if bname == "B1":
        return [
            b("b1"), b(f"b1m{i}"), b("b1m0"), b("b1f"), b("b1cp"), b("b1c"), b("pb1"), bref("b2", "sub"), bref("b3", "q"),
            anon(x=sig("s"), y=sig("v")),
            anon(x=idx(sig("v"), 0), y=cat(sig("s"), sig("s2"))),
            anon(x=bref("b1", "x"), y=bref("b2", "sub", "y")),
            anon(x=pref(f"i{o}", "c"), y=rng(sig("t"), 1, 3)),
            anon(x=idx(bref("b1", "y"), 1), y=cat(bref("b1", "x"), idx(bref("b2", "sub", "y"), 0))),
            dct(x=sig("s2"), y=rng(sig("t"), 2, 4)),
            anon(y=sig("v"), x=sig("s2")),  # members written in another order than declared
            pref(f"i{o}", "bp"), nc(f"n{i}"), nc(f"nn{i}", f"named{i}"),
        ]
    if bname == "B2":
        return [
            b("b2"), b(f"b2m{i}"),
            anon(s=sig("s"), sub=b("b1")),
            anon(s=idx(sig("t"), 3), sub=anon(x=sig("s2"), y=sig("v"))),
            anon(s=bref("b2", "s"), sub=bref("b2", "sub")),
            anon(s=pref(f"i{o}", "c"), sub=bref("b3", "p")),
            dct(s=sig("s"), sub=b("b1f")),
            anon(sub=anon(y=rng(sig("t"), 0, 2), x=sig("s")), s=sig("s2")),
            pref(f"i{o}", "bp"), nc(f"n{i}"),
        ]
    if bname == "B3":
        return [
            b("b3"),
            anon(p=b("b1"), q=b("b1f")),
            anon(p=bref("b3", "q"), q=bref("b3", "p")),
            anon(p=anon(x=sig("s"), y=sig("v")), q=bref("b2", "sub")),
            dct(q=b("b1"), p=bref("b2", "sub")),
            pref(f"i{o}", "bp"), nc(f"n{i}"),
        ]
    raise ValueError(bname)


def child(bname, flipped):
    from ..refsem import bundle_leaves

    des = {"bundles": BUNDLES}
    decls = [("bport", "bp", bname, flipped, None), ("port", "c", 1, "none")]
    decls.append(("inst", "tc", ("ext", "P1", {"k": 1}), [("a", sig("c"))]))
    for path, w in bundle_leaves(des, bname):
        decls.append(("inst", "t_" + "_".join(path), ("ext", f"P{w}", {"k": 2}), [("a", bref("bp", *path))]))
    return {"name": "In" + bname, "style": "class", "decls": decls}


# expressions built on a reference to a port that is itself tied to a bundle member
PREF_SRC = [bref("b1", "y"), bref("pb1", "y"), bref("b2", "sub", "y"), idx(bref("b1", "y"), 1)]
PREF_USE = ["whole", "idx0", "idx1", "rng", "cat", "cat_idx", "anon_member", "rev"]


def design_prefexpr(desc):
    _tag, si, use, n = desc
    from .base import leaf_module

    src = PREF_SRC[si]
    w = 1 if src[0] == "idx" else 2
    exts = dict([probe_ext(1), probe_ext(2), probe_ext(3), probe_ext(4)])
    drv, en, ed = leaf_module("Drv", [("z", w)], tag=3)
    exts[en] = ed
    decls = [("sig", "s", 1), ("sig", "v", 2), probe("p_s", "s", 1, 5), probe("p_v", "v", 2, 5),
             ("binst", "b1", "B1"), ("bport", "pb1", "B1", False, None), ("binst", "b2", "B2"),
             ("inst", "q1x", ("ext", "P1", {"k": 11}), [("a", bref("b1", "x"))]), ("inst", "q1y", ("ext", "P2", {"k": 12}), [("a", bref("b1", "y"))]),
             ("inst", "q2s", ("ext", "P1", {"k": 13}), [("a", bref("b2", "s"))]), ("inst", "q2x", ("ext", "P1", {"k": 14}), [("a", bref("b2", "sub", "x"))]),
             ("inst", "q2y", ("ext", "P2", {"k": 15}), [("a", bref("b2", "sub", "y"))]),
             ("inst", "d", ("mod", "Drv"), [("z", src)])]
    r = pref("d", "z")
    if use == "whole":
        decls.append(("inst", "u", ("ext", f"P{w}", {"k": 20}), [("a", r)]))
    elif use == "idx0":
        decls.append(("inst", "u", ("ext", "P1", {"k": 20}), [("a", idx(r, 0))]))
    elif use == "idx1":
        decls.append(("inst", "u", ("ext", "P1", {"k": 20}), [("a", idx(r, w - 1))]))
    elif use == "rng":
        decls.append(("inst", "u", ("ext", f"P{w}", {"k": 20}), [("a", rng(r, 0, w))]))
    elif use == "rev":
        decls.append(("inst", "u", ("ext", f"P{w}", {"k": 20}), [("a", rng(r, None, None, -1))]))
    elif use == "cat":
        decls.append(("inst", "u", ("ext", f"P{w + 1}", {"k": 20}), [("a", cat(r, sig("s")))]))
    elif use == "cat_idx":
        decls.append(("inst", "u", ("ext", "P3", {"k": 20}), [("a", cat(idx(r, 0), sig("v")))]))
    elif use == "anon_member":
        decls.append(("inst", "u", ("mod", "InB1"), [("bp", anon(x=idx(r, 0), y=(r if w == 2 else sig("v")))), ("c", sig("s"))]))
    mods = {"Drv": drv, "InB1": child("B1", False), "Top": {"name": "Top", "style": ["proc", "class", "gen"][n % 3], "decls": decls}}
    return "F4/prefexpr", {"bundles": BUNDLES, "exts": exts, "modules": mods, "top": "Top"}


def items(tier):
    out = []
    n = 0
    for si in range(len(PREF_SRC)):
        for use in PREF_USE:
            out.append(("prefexpr", si, use, n))
            n += 1
    for bname in ("B1", "B2", "B3"):
        f0, f1 = forms(bname, 0), forms(bname, 1)
        for a, c in itertools.product(range(len(f0)), range(len(f1))):
            for flipped in ((False, True) if tier == "thorough" else (False,)):
                out.append((bname, a, c, flipped, n))
                n += 1
    return out


def design(desc):
    if desc[0] == "prefexpr":
        return design_prefexpr(desc)
    bname, a, c, flipped, n = desc
    e0, e1 = forms(bname, 0)[a], forms(bname, 1)[c]
    exts = dict([probe_ext(1), probe_ext(2), probe_ext(4)])
    decls = []
    for nm, w in [("s", 1), ("s2", 1), ("sc0", 1), ("sc1", 1), ("v", 2), ("t", 4)]:
        decls.append(("sig", nm, w))
        decls.append(probe("p_" + nm, nm, w, tag=5))
    decls += [
        ("binst", "b1", "B1"), ("binst", "b1m0", "B1", "mult", 0), ("binst", "b1m1", "B1", "mult", 0),
        ("binst", "b1f", "B1", "flipped"), ("binst", "b1cp", "B1", "copy"), ("binst", "b1c", "B1b"),
        ("bport", "pb1", "B1", False, None),
        ("binst", "b2", "B2"), ("binst", "b2m0", "B2", "mult", 1), ("binst", "b2m1", "B2", "mult", 1), ("binst", "b3", "B3"),
    ]
    decls.append(("inst", "i0", ("mod", "In" + bname), [("bp", e0), ("c", sig("sc0"))]))
    decls.append(("inst", "i1", ("mod", "In" + bname), [("bp", e1), ("c", sig("sc1"))]))
    top = {"name": "Top", "style": ["proc", "class", "gen"][n % 3], "decls": decls}
    return f"F4/{bname}", {"bundles": BUNDLES, "exts": exts, "modules": {"In" + bname: child(bname, flipped), "Top": top}, "top": "Top"}
