"""
F9 — one object feeding several ports: a child with three bundle ports and three scalar ports, fed from one bundle
instance / bundle reference / anonymous bundle / port reference / signal in every combination; references sliced and
concatenated several times.  (These are the designs in which back-reference sets hold >= 2 entries.)
"""

import itertools
from .base import *
from .f4_bundles import BUNDLES, bref, anon, b


def child():
    decls = [("bport", "bp1", "B1", False, None), ("bport", "bp2", "B1", False, None), ("bport", "bp3", "B2", False, None),
             ("port", "a", 1, "none"), ("port", "c", 1, "none"), ("port", "d", 2, "none")]
    k = 0
    for bp, paths in (("bp1", [("x",), ("y",)]), ("bp2", [("x",), ("y",)]), ("bp3", [("s",), ("sub", "x"), ("sub", "y")])):
        for p in paths:
            w = 2 if p[-1] == "y" else 1
            k += 1
            decls.append(("inst", f"t_{bp}_{'_'.join(p)}", ("ext", f"P{w}", {"k": k}), [("a", bref(bp, *p))]))
    for n, w in (("a", 1), ("c", 1), ("d", 2)):
        k += 1
        decls.append(("inst", "t_" + n, ("ext", f"P{w}", {"k": k}), [("a", sig(n))]))
    return {"name": "Wide", "style": "class", "decls": decls}


B1F = [b("bb"), bref("b2", "sub"), anon(x=sig("s"), y=sig("v")), anon(x=bref("bb", "x"), y=bref("b2", "sub", "y")), pref("j", "bp1")]
B2F = [b("b2"), anon(s=bref("bb", "x"), sub=b("bb")), anon(s=sig("s"), sub=bref("b2", "sub")), pref("j", "bp3")]
S1F = [sig("s"), bref("bb", "x"), pref("j", "a"), idx(pref("j", "d"), 0), idx(sig("v"), 1)]
S2F = [sig("v"), bref("bb", "y"), pref("j", "d"), cat(pref("j", "a"), pref("j", "c")), cat(idx(pref("j", "d"), 1), idx(pref("j", "d"), 0))]


def items(tier):
    out, n = [], 0
    for c in itertools.product(range(len(B1F)), range(len(B1F)), range(len(B2F)), range(len(S1F)), range(len(S1F)), range(len(S2F))):
        if tier == "quick" and n % 7:
            n += 1
            continue
        out.append(c + (n,))
        n += 1
    return out


def design(desc):
    i1, i2, i3, ia, ic, id_, n = desc
    exts = dict([probe_ext(1), probe_ext(2)])
    decls = [("sig", "s", 1), ("sig", "v", 2), ("sig", "ja", 1), ("sig", "jc", 1), ("sig", "jd", 2),
             ("binst", "bb", "B1"), ("binst", "b2", "B2"), ("binst", "jb1", "B1"), ("binst", "jb2", "B1"), ("binst", "jb3", "B2"),
             probe("p_s", "s", 1, 30), probe("p_v", "v", 2, 31)]
    decls.append(("inst", "j", ("mod", "Wide"), [("bp1", b("jb1")), ("bp2", b("jb2")), ("bp3", b("jb3")), ("a", sig("ja")), ("c", sig("jc")), ("d", sig("jd"))]))
    conns = [("bp1", B1F[i1]), ("bp2", B1F[i2]), ("bp3", B2F[i3]), ("a", S1F[ia]), ("c", S1F[ic]), ("d", S2F[id_])]
    order = [list(p) for p in itertools.permutations(range(6))][n % 720]
    conns = [conns[k] for k in order]
    decls.append(("inst", "i", ("mod", "Wide"), conns))
    top = {"name": "Top", "style": ["proc", "class", "gen"][n % 3], "decls": decls}
    return "F9/multifeed", {"bundles": BUNDLES, "exts": exts, "modules": {"Wide": child(), "Top": top}, "top": "Top"}
