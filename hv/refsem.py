"""
Reference semantics R(design): the *independent meaning* of a design description.

Deliberately boring: plain dict / list / tuple code, Python list semantics for slices and concatenation,
a union-find over bit nodes.  NO hdl21 import.

Design description (all plain JSON-able data; tuples may be lists):

  design = {"bundles": {bname: BundleDef}, "exts": {ename: ExtDef}, "modules": {mname: Mod} (children first), "top": mname}
  BundleDef = {"sigs": [(name, width, kind)], "subs": [(name, bname, flipped)]}
  ExtDef    = {"ports": [(name, width)]}
  Mod       = {"name":…, "style": "proc"|"class"|"gen", "decls": [Decl]}
  Decl = ("port", name, width, dir) | ("sig", name, width) | ("bport", name, bname, flipped, role)
       | ("binst", name, bname) | ("inst", name, Target, Conns) | ("array", name, Target, n, Conns)
       | ("pair", name, Target, Conns)
  Target = ("mod", mname) | ("prim", pname, {param: value}) | ("ext", ename, {param: value})
  Conns  = [(portname, Expr)]
  Expr = ("sig", name) | ("idx", Expr, i) | ("rng", Expr, start, stop, step) | ("cat", [Expr]) | ("pref", inst, port)
       | ("nc", id, name|None) | ("b", name) | ("bref", name, [path]) | ("anon", [(k, Expr)]) | ("dict", [(k, Expr)])

Result of R: (devices, partition)
  devices   : {path: (kind, name, ((param, value), …))}         leaf devices by canonical instance path
  partition : frozenset of frozensets of nodes; node = (path, terminal-or-port-name, bit); only leaf terminals and
              top-level port bits are kept.
  path element: "instname" | "arr#k" (element k of array arr) | "pr#p" (element p of pair pr)
"""

PRIM_PORTS = {
    "R": ["p", "n"], "C": ["p", "n"], "L": ["p", "n"], "Vdc": ["p", "n"], "Idc": ["p", "n"],
    "Vpulse": ["p", "n"], "Vsin": ["p", "n"],
    "Vcvs": ["p", "n", "cp", "cn"], "Vccs": ["p", "n", "cp", "cn"], "Ccvs": ["p", "n", "cp", "cn"], "Cccs": ["p", "n", "cp", "cn"],
    "Mos": ["d", "g", "s", "b"], "Nmos": ["d", "g", "s", "b"], "Pmos": ["d", "g", "s", "b"],
    "Diode": ["p", "n"], "Res2": ["p", "n"], "Cap2": ["p", "n"], "Res3": ["p", "n", "b"], "Cap3": ["p", "n", "b"],
    "Npn": ["c", "b", "e"], "Pnp": ["c", "b", "e"], "Bipolar": ["c", "b", "e"], "Short": ["p", "n"],
}


class Invalid(Exception):
    """The design is ill-formed; .reason names the fault class."""

    def __init__(self, reason, detail=""):
        super().__init__(f"{reason}: {detail}")
        self.reason = reason


class UF:
    def __init__(self):
        self.p = {}

    def find(self, x):
        p = self.p
        if x not in p:
            p[x] = x
            return x
        r = x
        while p[r] != r:
            r = p[r]
        while p[x] != r:
            p[x], x = r, p[x]
        return r

    def union(self, a, b):
        ra, rb = self.find(a), self.find(b)
        if ra != rb:
            self.p[ra] = rb


# ------------------------------------------------------------------------------------------------
# bundle definitions
# ------------------------------------------------------------------------------------------------
def bundle_leaves(design, bname):
    """[(path tuple, width)] of every leaf signal of bundle `bname`, own signals first then sub-bundles."""
    bd = design["bundles"][bname]
    out = [((s[0],), s[1]) for s in bd["sigs"]]
    for sub in bd.get("subs", []):
        for p, w in bundle_leaves(design, sub[1]):
            out.append(((sub[0],) + p, w))
    return out


def bundle_resolve(design, bname, path):
    """Follow `path` into bundle `bname`: ("sig", width) or ("bundle", bname)."""
    cur = bname
    for k, seg in enumerate(path):
        bd = design["bundles"][cur]
        sig = [s for s in bd["sigs"] if s[0] == seg]
        if sig:
            if k != len(path) - 1:
                raise Invalid("bad_member", f"{seg} is a signal, path continues")
            return ("sig", sig[0][1])
        sub = [s for s in bd.get("subs", []) if s[0] == seg]
        if not sub:
            raise Invalid("bad_member", f"no member {seg} in {cur}")
        cur = sub[0][1]
    return ("bundle", cur)


# ------------------------------------------------------------------------------------------------
# module interface
# ------------------------------------------------------------------------------------------------
def target_ports(design, target):
    """Ordered {portname: ("sig", width) | ("bundle", bname)} of an instantiable target."""
    kind = target[0]
    if kind == "prim":
        return {p: ("sig", 1) for p in PRIM_PORTS[target[1]]}
    if kind == "ext":
        return {p[0]: ("sig", p[1]) for p in design["exts"][target[1]]["ports"]}
    if kind == "mod":
        mod = design["modules"][target[1]]
        out = {}
        for d in mod["decls"]:
            if d[0] == "port":
                out[d[1]] = ("sig", d[2])
            elif d[0] == "bport":
                out[d[1]] = ("bundle", d[2])
        return out
    raise ValueError(target)


def mod_names(mod):
    """name -> decl for every declaration of a module."""
    out = {}
    for d in mod["decls"]:
        if d[1] in out:
            raise Invalid("dup_name", d[1])
        out[d[1]] = d
    return out


# ------------------------------------------------------------------------------------------------
# the evaluator
# ------------------------------------------------------------------------------------------------
class Scope:
    def __init__(self, design, mod, path):
        self.design, self.mod, self.path = design, mod, path
        self.names = mod_names(mod)
        self.nc_uses = {}  # noconn id -> number of port connections
        self.prefs_used = set()  # (inst, port) referenced by some live connection


def node(path, name, k):
    return (path, name, k)


def ev(sc: Scope, e, want=None):
    """Evaluate Expr `e` in scope `sc`.  Returns a list of nodes (bus value, LSB first) or a dict {member path: list}.
    `want` is the type of the port being fed (("sig", w) / ("bundle", bname)); only no-connects need it."""
    k = e[0]
    if k == "sig":
        d = sc.names.get(e[1])
        if d is None or d[0] not in ("sig", "port"):
            raise Invalid("orphan", f"signal {e[1]} not in module {sc.mod['name']}")
        if (sc.mod["name"], e[1]) in [tuple(x) for x in sc.design.get("redeclare", ())]:
            # the signal was replaced, after this connection was made, by a new object of the same name: the connection
            # still refers to the old object, which no module owns any more
            raise Invalid("orphan", f"signal {e[1]} of {sc.mod['name']} was replaced after it was connected")
        return [node(sc.path, e[1], i) for i in range(d[2])]
    if k == "idx":
        v = ev(sc, e[1])
        if isinstance(v, dict):
            raise Invalid("bad_type", "index into bundle")
        i = e[2]
        if not (-len(v) <= i < len(v)):
            raise Invalid("index_range", f"{i} of width {len(v)}")
        return [v[i]]
    if k == "rng":
        v = ev(sc, e[1])
        if isinstance(v, dict):
            raise Invalid("bad_type", "slice of bundle")
        if e[4] == 0:
            raise Invalid("index_range", "zero step")
        w = len(v)
        for b in (e[2], e[3]):
            if b is not None and not (-w <= b <= w) and not sc.design.get("clamp"):
                raise Invalid("index_range", f"bound {b} beyond [-{w},{w}]")
        r = v[slice(e[2], e[3], e[4])]
        if not r:
            raise Invalid("index_range", "empty slice")
        return r
    if k == "cat":
        out = []
        for p in e[1]:
            v = ev(sc, p)
            if isinstance(v, dict):
                raise Invalid("bad_type", "bundle in concat")
            out.extend(v)
        if not out:
            raise Invalid("bad_type", "empty concat")
        return out
    if k == "pref":
        d = sc.names.get(e[1])
        if d is None or d[0] not in ("inst", "array", "pair"):
            raise Invalid("orphan", f"instance {e[1]} not in module {sc.mod['name']}")
        ports = target_ports(sc.design, d[2])
        if e[2] not in ports:
            raise Invalid("bad_port", f"{e[1]}.{e[2]}")
        sc.prefs_used.add((e[1], e[2]))
        return port_value(sc, d, e[2], ports[e[2]])
    if k == "nc":
        if want is None:
            raise Invalid("bad_type", "no-connect inside an expression")
        sc.nc_uses[e[1]] = sc.nc_uses.get(e[1], 0) + 1
        return fresh(sc, ("#nc", e[1], sc.nc_uses[e[1]]), want)
    if k == "b":
        d = sc.names.get(e[1])
        if d is None or d[0] not in ("bport", "binst"):
            raise Invalid("orphan", f"bundle {e[1]} not in module {sc.mod['name']}")
        return {p: [node(sc.path, e[1] + "." + ".".join(p), i) for i in range(w)] for p, w in bundle_leaves(sc.design, d[2])}
    if k == "bref":
        d = sc.names.get(e[1])
        if d is None or d[0] not in ("bport", "binst"):
            raise Invalid("orphan", f"bundle {e[1]} not in module {sc.mod['name']}")
        path = tuple(e[2])
        what = bundle_resolve(sc.design, d[2], path)
        if what[0] == "sig":
            return [node(sc.path, e[1] + "." + ".".join(path), i) for i in range(what[1])]
        return {p: [node(sc.path, e[1] + "." + ".".join(path + p), i) for i in range(w)] for p, w in bundle_leaves(sc.design, what[1])}
    if k in ("osig", "ob", "opref"):
        raise Invalid("orphan", f"{k} owned by {e[-1]}")
    if k in ("anon", "dict"):
        out = {}
        for name, sub in e[1]:
            v = ev(sc, sub)
            if isinstance(v, dict):
                for p, bits in v.items():
                    out[(name,) + p] = bits
            else:
                out[(name,)] = v
        return out
    raise ValueError(f"unknown expr {e!r}")


def fresh(sc, tag, want):
    if want[0] == "sig":
        return [node(sc.path, tag, i) for i in range(want[1])]
    return {p: [node(sc.path, tag + p, i) for i in range(w)] for p, w in bundle_leaves(sc.design, want[1])}


def elem_paths(sc, d):
    """Canonical path elements of the concrete instances a declaration stands for."""
    if d[0] == "inst":
        return [d[1]]
    if d[0] == "array":
        return [f"{d[1]}#{k}" for k in range(d[3])]
    if d[0] == "pair":
        return [f"{d[1]}#p", f"{d[1]}#n"]
    raise ValueError(d)


def port_value(sc, d, port, ptype):
    """The value a reference `inst.port` denotes: the port nodes of the (first / broadcast) element."""
    el = elem_paths(sc, d)[0]
    return child_port_nodes(sc, sc.path + (el,), port, ptype)


def child_port_nodes(sc, cpath, port, ptype):
    if ptype[0] == "sig":
        return [node(cpath, port, i) for i in range(ptype[1])]
    return {p: [node(cpath, port + "." + ".".join(p), i) for i in range(w)] for p, w in bundle_leaves(sc.design, ptype[1])}


def conns_of(d):
    return d[3] if d[0] in ("inst", "pair") else d[4]


def connect(uf, sc, cpath, port, ptype, val, why):
    """Union child port (cpath, port) with value `val` bit by bit."""
    tgt = child_port_nodes(sc, cpath, port, ptype)
    if ptype[0] == "sig":
        if isinstance(val, dict):
            raise Invalid("bad_type", f"bundle to signal port {port} ({why})")
        if len(val) != len(tgt):
            raise Invalid("width", f"{port}: {len(val)} != {len(tgt)} ({why})")
        for a, b in zip(tgt, val):
            uf.union(a, b)
    else:
        if not isinstance(val, dict):
            raise Invalid("bad_type", f"signal to bundle port {port} ({why})")
        for p, bits in tgt.items():
            if p not in val:
                raise Invalid("bad_member", f"{port}: missing member {p} ({why})")
            if len(val[p]) != len(bits):
                raise Invalid("width", f"{port}.{p}: {len(val[p])} != {len(bits)} ({why})")
            for a, b in zip(bits, val[p]):
                uf.union(a, b)
        extra = set(val) - set(tgt)
        if extra:
            raise Invalid("extra_member", f"{port}: extra members {sorted(extra)} ({why})")


def walk(design, mname, path, uf, devices, stack, strict_extra=True):
    if mname in stack:
        raise Invalid("cycle", " -> ".join(stack + [mname]))
    mod = design["modules"][mname]
    if not mod.get("name"):
        raise Invalid("anon_module", mname)
    sc = Scope(design, mod, path)
    nc_ports = set()  # (inst, port) connected to a no-connect
    for d in mod["decls"]:
        if d[0] not in ("inst", "array", "pair"):
            continue
        target = d[2]
        ports = target_ports(design, target)
        conns = conns_of(d)
        seen = set()
        for pname, e in conns:
            if pname in seen:
                # later connection to the same port replaces the earlier one: families never emit this
                raise ValueError("duplicate port in conns; use the last-writer-wins form upstream")
            seen.add(pname)
            if pname not in ports:
                raise Invalid("bad_port", f"{d[1]}.{pname}")
            ptype = ports[pname]
            els = elem_paths(sc, d)
            if e[0] == "nc":
                nc_ports.add((d[1], pname))
                if d[0] != "inst":
                    # one no-connect object feeding every element of an array / pair: each element's port must
                    # stay alone, which the library can only do by failing or by creating one net per element
                    for el in els:
                        connect(uf, sc, path + (el,), pname, ptype, ev(sc, e, ptype), d[1])
                    continue
                connect(uf, sc, path + (els[0],), pname, ptype, ev(sc, e, ptype), d[1])
                continue
            val = ev(sc, e)
            if d[0] == "inst":
                connect(uf, sc, path + (els[0],), pname, ptype, val, d[1])
            elif d[0] == "array":
                n = d[3]
                if n < 1:
                    raise Invalid("array_size", d[1])
                if ptype[0] == "bundle" and isinstance(val, dict):
                    # bundle-valued array port: member by member, each of the member's own width (the same bits to every
                    # element) or n times that (element k takes the k-th group of bits) - as for scalar array ports
                    leaves = dict(bundle_leaves(design, ptype[1]))
                    for k, el in enumerate(els):
                        per = {}
                        for mem, bits in val.items():
                            w = leaves.get(mem)
                            per[mem] = bits[k * w : (k + 1) * w] if (w and len(bits) == w * n and n > 1) else bits
                        connect(uf, sc, path + (el,), pname, ptype, per, d[1])
                elif ptype[0] == "bundle" or isinstance(val, dict):
                    for el in els:
                        connect(uf, sc, path + (el,), pname, ptype, val, d[1])
                else:
                    w = ptype[1]
                    if len(val) == w:
                        for el in els:
                            connect(uf, sc, path + (el,), pname, ptype, val, d[1])
                    elif len(val) == w * n:
                        for k, el in enumerate(els):
                            connect(uf, sc, path + (el,), pname, ptype, val[k * w : (k + 1) * w], d[1])
                    else:
                        raise Invalid("width", f"array {d[1]}.{pname}: {len(val)} not in ({w}, {w*n})")
            elif d[0] == "pair":
                if isinstance(val, dict):
                    # Diff-like value: member p -> element p, member n -> element n
                    for el, mem in zip(els, ("p", "n")):
                        if (mem,) not in val:
                            raise Invalid("bad_member", f"pair {d[1]}.{pname}: no member {mem}")
                        connect(uf, sc, path + (el,), pname, ptype, val[(mem,)], d[1])
                    extra = set(val) - {("p",), ("n",)}
                    if extra and strict_extra:
                        raise Invalid("extra_member", f"pair {d[1]}.{pname}: {sorted(extra)}")
                else:
                    for el in els:
                        connect(uf, sc, path + (el,), pname, ptype, val, d[1])
        d_missing = [p for p in ports if p not in seen]
        sc_missing = getattr(sc, "missing", None)
        if sc_missing is None:
            sc.missing = sc_missing = []
        for p in d_missing:
            sc_missing.append((d[1], p))
    # ports neither connected nor referenced by a live connection
    for inst, p in getattr(sc, "missing", []):
        if (inst, p) not in sc.prefs_used:
            raise Invalid("unconnected", f"{mname}.{inst}.{p}")
        # an array port that is only referenced hangs on one implicit net of the port's own width: broadcast to every element
        d = sc.names[inst]
        if d[0] == "array":
            ptype = target_ports(design, d[2])[p]
            els = elem_paths(sc, d)
            first = child_port_nodes(sc, path + (els[0],), p, ptype)
            for el in els[1:]:
                other = child_port_nodes(sc, path + (el,), p, ptype)
                if ptype[0] == "sig":
                    for x, y in zip(first, other):
                        uf.union(x, y)
                else:
                    for mem in first:
                        for x, y in zip(first[mem], other[mem]):
                            uf.union(x, y)
    # no-connect rules
    for ncid, n in sc.nc_uses.items():
        pass
    nc_ids = {}
    for d in mod["decls"]:
        if d[0] in ("inst", "array", "pair"):
            for pname, e in conns_of(d):
                if e[0] == "nc":
                    nc_ids.setdefault(e[1], []).append((d[1], pname))
    # one NoConn object feeding several ports is well-formed ("shared no-connects"): every use is its own isolated net
    for ip in nc_ports:
        if ip in sc.prefs_used:
            raise Invalid("noconn_referenced", f"{ip}")
    # recurse
    for d in mod["decls"]:
        if d[0] not in ("inst", "array", "pair"):
            continue
        target = d[2]
        for el in elem_paths(sc, d):
            cpath = path + (el,)
            if target[0] == "mod":
                walk(design, target[1], cpath, uf, devices, stack + [mname], strict_extra)
            else:
                devices[cpath] = (target[0], target[1], tuple(sorted((k, canon_param(v)) for k, v in target[2].items())))
                for p, pt in target_ports(design, target).items():
                    for i in range(pt[1]):
                        uf.find(node(cpath, p, i))


def canon_param(v):
    if isinstance(v, (tuple, list)) and v and v[0] == "pre":
        from fractions import Fraction

        val = Fraction(v[1]) * Fraction(10) ** v[2]
        return int(val) if val.denominator == 1 else str(val)
    return v if isinstance(v, (int, str)) or v is None else repr(v)


def top_port_names(design):
    """Expected {flattened top port name: width} of the top module (documented `inst_member_path` naming)."""
    return {k: v[1] for k, v in top_port_labels(design).items()}


def top_port_labels(design):
    """{documented flattened port name: (label used in partitions, width)}.  Scalar ports are labelled by their own name,
    members of bundle-valued ports by the dotted path `port.member.path` (so that a designer port called `pb_x` and the
    member x of bundle port pb stay distinguishable whatever name the flattener picks)."""
    mod = design["modules"][design["top"]]
    out = {}
    for d in mod["decls"]:
        if d[0] == "bport":
            for p, w in bundle_leaves(design, d[2]):
                out[d[1] + "_" + "_".join(p)] = (d[1] + "." + ".".join(p), w)
    for d in mod["decls"]:
        if d[0] == "port":
            out[d[1]] = (d[1], d[2])  # an explicitly declared port owns its name
    return out


def scalar_top_ports(design):
    mod = design["modules"][design["top"]]
    return {d[1]: d[2] for d in mod["decls"] if d[0] == "port"}


def R(design):
    """(devices, partition) or raise Invalid."""
    uf = UF()
    devices = {}
    # module-name clash check
    names = [m.get("name") for m in design["modules"].values()]
    reach = reachable(design)
    rn = [design["modules"][m].get("name") for m in reach]
    if any(not n for n in rn):
        raise Invalid("anon_module", "")
    if len(set(rn)) != len(rn):
        raise Invalid("module_name_clash", str(rn))
    for sm, sa in design.get("steal", ()):
        if sm in reach:
            raise Invalid("orphan", f"{sm}.{sa} was taken over by another module")
    walk(design, design["top"], (), uf, devices, [])
    mod = design["modules"][design["top"]]
    keep = set()
    for cpath, (kind, name, _params) in devices.items():
        tgt = (kind, name, {})
        for p, pt in target_ports(design, tgt).items():
            for i in range(pt[1]):
                keep.add(node(cpath, p, i))
    topmap = {}
    for d in mod["decls"]:
        if d[0] == "port":
            for i in range(d[2]):
                n = node((), d[1], i)
                keep.add(n)
                uf.find(n)
        elif d[0] == "bport":
            for p, w in bundle_leaves(design, d[2]):
                for i in range(w):
                    n = node((), d[1] + "." + ".".join(p), i)
                    keep.add(n)
                    uf.find(n)
    classes = {}
    for n in keep:
        classes.setdefault(uf.find(n), set()).add(topmap.get(n, n))
    return devices, frozenset(frozenset(c) for c in classes.values())


def reachable(design):
    seen, order = set(), []

    def go(m, stack):
        if m in stack:
            raise Invalid("cycle", m)
        if m in seen:
            return
        seen.add(m)
        for d in design["modules"][m]["decls"]:
            if d[0] in ("inst", "array", "pair") and d[2][0] == "mod":
                go(d[2][1], stack + [m])
        order.append(m)

    go(design["top"], [])
    return order


def expr_width(design, mod, e):
    """Width of a bus-valued Expr (or None for bundle-valued); raises Invalid like ev()."""
    sc = Scope(design, mod, ())
    v = ev(sc, e, ("sig", 1))
    return None if isinstance(v, dict) else len(v)


# ------------------------------------------------------------------------------------------------
# grey zone: groups of ports defined in terms of themselves through a slice / concatenation
# ------------------------------------------------------------------------------------------------
def _prefs_in(e, out):
    k = e[0]
    if k in ("osig", "ob", "opref"):
        return out
    if k == "pref":
        out.append((e[1], e[2]))
    elif k in ("idx", "rng"):
        _prefs_in(e[1], out)
    elif k == "cat":
        for p in e[1]:
            _prefs_in(p, out)
    elif k in ("anon", "dict"):
        for _n, p in e[1]:
            _prefs_in(p, out)
    return out


def derivation_cycle(design):
    """True if, in some module, a port's connection slices / concatenates a reference to a port of its own
    reference group (directly or through other groups): `i0.b = Concat(i1.b); i1.b = i0.b`.  Such designs define a net
    in terms of itself; the property's "cycles" are cycles of plain references, so these are judged raise-or-correct."""
    for mod in design["modules"].values():
        uf = UF()
        derived = []
        for d in mod["decls"]:
            if d[0] not in ("inst", "array", "pair"):
                continue
            for pname, e in conns_of(d):
                me = (d[1], pname)
                uf.find(me)
                if e[0] == "pref":
                    uf.union(me, (e[1], e[2]))
                else:
                    for r in _prefs_in(e, []):
                        derived.append((me, r))
        graph = {}
        for a, b in derived:
            graph.setdefault(uf.find(a), set()).add(uf.find(b))
        state = {}

        def dfs(n):
            state[n] = 1
            for m in graph.get(n, ()):
                if state.get(m) == 1:
                    return True
                if m not in state and dfs(m):
                    return True
            state[n] = 2
            return False

        for n in list(graph):
            if n not in state and dfs(n):
                return True
    return False
