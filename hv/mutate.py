"""
Single-fault mutation operators on design descriptions (C02): each yields (fault_class, site, mutated design, reasons)
where `reasons` is the set of refsem.Invalid reasons that justify calling the mutant ill-formed.
"""

import copy
from . import refsem


def _conns_index(d):
    return 3 if d[0] in ("inst", "pair") else 4


def walk_expr(e, path=()):
    """Yield (path, subexpr) for every node of an expression."""
    yield path, e
    k = e[0]
    if k in ("idx", "rng"):
        yield from walk_expr(e[1], path + (1,))
    elif k == "cat":
        for n, p in enumerate(e[1]):
            yield from walk_expr(p, path + (1, n))
    elif k in ("anon", "dict"):
        for n, (_name, p) in enumerate(e[1]):
            yield from walk_expr(p, path + (1, n, 1))


def set_at(e, path, new):
    if not path:
        return new
    was_tuple = isinstance(e, tuple)
    l = list(e)
    l[path[0]] = set_at(l[path[0]], path[1:], new)
    return tuple(l) if was_tuple else l


def replace_conn(design, mname, di, ci, new_expr=None, drop=False, add=None):
    d2 = copy.deepcopy(design)
    decls = d2["modules"][mname]["decls"]
    dec = list(decls[di])
    k = _conns_index(dec)
    conns = list(dec[k])
    if drop:
        conns.pop(ci)
    elif add is not None:
        conns.append(add)
    else:
        conns[ci] = (conns[ci][0], new_expr)
    dec[k] = conns
    decls[di] = tuple(dec)
    return d2


def width_of(design, mname, e):
    try:
        return refsem.expr_width(design, design["modules"][mname], e)
    except refsem.Invalid:
        return None
    except Exception:
        return None


def some_scalar(design, mname):
    for d in design["modules"][mname]["decls"]:
        if d[0] in ("sig", "port") and d[2] == 1:
            return ("sig", d[1])
    return None


def mutants(design, classes=None):
    out = []
    mods = design["modules"]
    reach = set(refsem.reachable(design))
    for mname, mod in mods.items():
        if mname not in reach:
            continue
        decls = mod["decls"]
        # ---- declared widths ----
        for di, d in enumerate(decls):
            if d[0] in ("sig", "port"):
                for dw in (1, -1):
                    if d[2] + dw < 1:
                        continue
                    d2 = copy.deepcopy(design)
                    dd = list(d2["modules"][mname]["decls"][di])
                    dd[2] = d[2] + dw
                    d2["modules"][mname]["decls"][di] = tuple(dd)
                    out.append(("width_decl", f"{mname}.{d[1]} width {d[2]}->{d[2]+dw}", d2, {"width", "index_range"}))
            if d[0] == "array" and d[3] >= 1:
                d2 = copy.deepcopy(design)
                dd = list(d2["modules"][mname]["decls"][di])
                dd[3] = d[3] + 1
                d2["modules"][mname]["decls"][di] = tuple(dd)
                out.append(("array_count", f"{mname}.{d[1]} n {d[3]}->{d[3]+1}", d2, {"width"}))
        # ---- an attribute of this module that another module takes over afterwards (first of each kind) ----
        seen_kinds = set()
        for di, d in enumerate(decls):
            if d[0] in ("sig", "port", "binst", "inst", "array", "pair") and d[0] not in seen_kinds:
                seen_kinds.add(d[0])
                d2 = copy.deepcopy(design)
                d2["steal"] = [(mname, d[1])]
                out.append(("stolen_attribute", f"{mname}.{d[1]} ({d[0]})", d2, {"orphan"}))
        # ---- connections ----
        for di, d in enumerate(decls):
            if d[0] not in ("inst", "array", "pair"):
                continue
            conns = d[_conns_index(d)]
            ports = refsem.target_ports(design, d[2])
            for ci, (pname, e) in enumerate(conns):
                site = f"{mname}.{d[1]}.{pname}"
                out.append(("missing_conn", site, replace_conn(design, mname, di, ci, drop=True), {"unconnected"}))
                if d[0] == "inst" and ports[pname][0] == "sig":
                    # ... and the dropped port is merely looked at afterwards (print(inst.p), a debugger, hasattr)
                    # ... or used only by something that is not (or no longer) part of the design: a slice / concatenation
                    # of it that nothing connects, an instance that is never added to a module
                    for how in (("read", "slice", "concat", "discarded") if ci == 0 else ("read", "discarded")):
                        dr = replace_conn(design, mname, di, ci, drop=True)
                        dr["reads"] = [(mname, d[1], pname, how)]
                        out.append(("missing_conn", site + "/" + how, dr, {"unconnected"}))
                for path, sub in walk_expr(e):
                    k = sub[0]
                    if k == "rng":
                        a, b_, s = sub[2], sub[3], sub[4]
                        w = width_of(design, mname, sub[1])
                        if w:
                            hi = b_ if b_ is not None else w
                            out.append(("slice_bound", site, replace_conn(design, mname, di, ci, set_at(e, path, ("rng", sub[1], a, hi + 1, s))), {"width", "index_range"}))
                            lo = a if a is not None else 0
                            out.append(("empty_slice", site, replace_conn(design, mname, di, ci, set_at(e, path, ("rng", sub[1], lo, lo, s))), {"index_range"}))
                    elif k == "idx":
                        w = width_of(design, mname, sub[1])
                        if w:
                            out.append(("index_oob", site, replace_conn(design, mname, di, ci, set_at(e, path, ("idx", sub[1], w))), {"index_range"}))
                            out.append(("index_oob", site, replace_conn(design, mname, di, ci, set_at(e, path, ("idx", sub[1], -w - 1))), {"index_range"}))
                    elif k == "cat":
                        extra = some_scalar(design, mname)
                        if extra:
                            out.append(("concat_part", site, replace_conn(design, mname, di, ci, set_at(e, path, ("cat", list(sub[1]) + [extra]))), {"width"}))
                        if len(sub[1]) >= 2:
                            out.append(("concat_part", site, replace_conn(design, mname, di, ci, set_at(e, path, ("cat", list(sub[1])[:-1]))), {"width"}))
                    elif k == "sig":
                        w = width_of(design, mname, sub)
                        for owner in ("none", "other"):
                            out.append(("orphan_signal", site + "/" + owner, replace_conn(design, mname, di, ci, set_at(e, path, ("osig", w or 1, owner))), {"orphan"}))
                        if path and w:
                            # widen a signal inside a compound expression (anonymous member, concat part, slice parent)
                            extra = some_scalar(design, mname)
                            if extra and e[0] in ("anon", "dict"):
                                out.append(("anon_member_width", site, replace_conn(design, mname, di, ci, set_at(e, path, ("cat", [sub, extra]))), {"width"}))
                    elif k in ("anon", "dict"):
                        extra = some_scalar(design, mname)
                        if extra and not path:
                            out.append(("anon_extra_member", site, replace_conn(design, mname, di, ci, (k, list(sub[1]) + [("zzextra", extra)])), {"extra_member"}))
                            # ... an extra member named like the *flattened* name of a nested member the port does have
                            bdef = design["bundles"].get(ports[pname][1]) if ports[pname][0] != "sig" else None
                            for sname, sb, _flip in (bdef["subs"] if bdef else []):
                                for leaf in design["bundles"][sb]["sigs"][:1]:
                                    out.append(("anon_extra_member", site + "/flatname", replace_conn(design, mname, di, ci, (k, list(sub[1]) + [(f"{sname}_{leaf[0]}", extra)])), {"extra_member"}))
                        elif extra:
                            # ... an extra member inside a nested anonymous bundle
                            out.append(("anon_extra_member", site + "/nested", replace_conn(design, mname, di, ci, set_at(e, path, (k, list(sub[1]) + [("zzextra", extra)]))), {"extra_member"}))
                    elif k == "b":
                        dec = refsem.mod_names(mod).get(sub[1])
                        if dec:
                            for owner in ("none", "other"):
                                out.append(("orphan_bundle", site + "/" + owner, replace_conn(design, mname, di, ci, set_at(e, path, ("ob", dec[2], owner))), {"orphan"}))
                            # a bundle instance of another type: one member more / one member fewer than the port's bundle
                            bdef = design["bundles"].get(dec[2])
                            if bdef and not bdef.get("builtin") and dec[0] == "binst":
                                for tag, sigs, reason in (("more", list(bdef["sigs"]) + [("zzextra", 1, "sig")], "extra_member"),
                                                          ("fewer", list(bdef["sigs"])[:-1], "bad_member")):
                                    if not sigs and not bdef["subs"]:
                                        continue
                                    dm = replace_conn(design, mname, di, ci, set_at(e, path, ("b", "zzother")))
                                    dm["bundles"] = dict(dm["bundles"])
                                    dm["bundles"][dec[2] + "_" + tag] = {"sigs": sigs, "subs": list(bdef["subs"])}
                                    dm["modules"][mname]["decls"] = list(dm["modules"][mname]["decls"]) + [("binst", "zzother", dec[2] + "_" + tag)]
                                    out.append(("bundle_type", site + "/" + tag, dm, {reason}))
                    elif k == "bref":
                        out.append(("bad_member", site, replace_conn(design, mname, di, ci, set_at(e, path, ("bref", sub[1], list(sub[2]) + ["zz"]))), {"bad_member"}))
                        out.append(("bad_member", site, replace_conn(design, mname, di, ci, set_at(e, path, ("bref", sub[1], list(sub[2])[:-1] + ["zz"]))), {"bad_member"}))
                    elif k == "pref":
                        out.append(("bad_ref_port", site, replace_conn(design, mname, di, ci, set_at(e, path, ("pref", sub[1], "zz"))), {"bad_port"}))
                        dec = refsem.mod_names(mod).get(sub[1])
                        if dec:
                            for owner in ("none", "other"):
                                out.append(("orphan_instance", site + "/" + owner, replace_conn(design, mname, di, ci, set_at(e, path, ("opref", dec[2], sub[2], owner))), {"orphan"}))
                            tp = refsem.target_ports(design, dec[2])
                            mine = tp.get(sub[2])
                            for op, ot in tp.items():
                                if op != sub[2] and ot[0] == "sig" and mine and mine[0] == "sig" and ot[1] != mine[1]:
                                    out.append(("ref_width", site, replace_conn(design, mname, di, ci, set_at(e, path, ("pref", sub[1], op))), {"width", "unconnected"}))
                                    break
            # extra connection to a port that does not exist
            if conns:
                out.append(("extra_port", f"{mname}.{d[1]}.zz", replace_conn(design, mname, di, 0, add=("zz", conns[0][1])), {"bad_port"}))
        # ---- a connected signal / port replaced afterwards by a new object of the same name ----
        used = set()
        for d in decls:
            if d[0] in ("inst", "array", "pair"):
                for _pn, e in d[_conns_index(d)]:
                    for _p, sub in walk_expr(e):
                        if sub[0] == "sig":
                            used.add(sub[1])
        for d in decls:
            if d[0] in ("sig", "port") and d[1] in used and mod.get("name"):
                dr = copy.deepcopy(design)
                dr["redeclare"] = [(mod["name"], d[1])]
                out.append(("replaced_signal", f"{mname}.{d[1]}", dr, {"orphan"}))
        # ---- a no-connect that is also referenced: (i.p = nc, j.q = i.p) ----
        insts = [(di, d) for di, d in enumerate(decls) if d[0] == "inst"]
        for (di, d) in insts:
            for (dj, dj_) in insts[:4]:
                if di == dj:
                    continue
                pi = refsem.target_ports(design, d[2])
                pj = refsem.target_ports(design, dj_[2])
                done = False
                for ci, (pn, _e) in enumerate(d[3]):
                    for cj, (qn, _e2) in enumerate(dj_[3]):
                        if pi[pn] == pj[qn]:
                            d2 = replace_conn(design, mname, di, ci, ("nc", "REFD", None))
                            d2 = replace_conn(d2, mname, dj, cj, ("pref", d[1], pn))
                            out.append(("noconn_referenced", f"{mname}.{d[1]}.{pn}<-{dj_[1]}.{qn}", d2, {"noconn_referenced"}))
                            # ... and referenced only inside a compound expression: a one-part concatenation, a full-range slice
                            if pi[pn][0] == "sig":
                                w = pi[pn][1]
                                for tag, wrapped in (("cat", ("cat", [("pref", d[1], pn)])), ("rng", ("rng", ("pref", d[1], pn), 0, w, None))):
                                    d3 = replace_conn(design, mname, di, ci, ("nc", "REFD", None))
                                    d3 = replace_conn(d3, mname, dj, cj, wrapped)
                                    out.append(("noconn_referenced", f"{mname}.{d[1]}.{pn}<-{dj_[1]}.{qn}/{tag}", d3, {"noconn_referenced"}))
                            done = True
                            break
                    if done:
                        break
    if classes:
        out = [m for m in out if m[0] in classes]
    return out


def classified(design, classes=None):
    """Mutants that the reference semantics calls ill-formed *for the planted reason*."""
    res = []
    for cls, site, d2, reasons in mutants(design, classes):
        d2["clamp"] = True  # a range bound beyond [-w, w] may legitimately select what Python selects (C03)
        try:
            refsem.R(d2)
        except refsem.Invalid as e:
            if e.reason in reasons:
                res.append((cls, site, d2, e.reason))
        except Exception:
            pass
    return res
