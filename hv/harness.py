"""Execute one design on the real library and compare with the reference semantics."""

import io, traceback
from . import refsem, observe
from .core import short_exc


def export(design, want_spice=True, want_built=False):
    """Build + to_proto (+ spice netlist).  Returns dict(pkg=…, spice=…, exc=…, stage=…)."""
    import hdl21 as h
    from .build import build

    out = dict(pkg=None, spice=None, exc=None, stage=None, built=None)
    try:
        out["stage"] = "build"
        built = build(design)
        if want_built:
            out["built"] = built
        out["stage"] = "to_proto"
        out["pkg"] = h.to_proto(built.top)
        if want_spice:
            out["stage"] = "netlist"
            s = io.StringIO()
            h.netlist(out["pkg"], s, fmt="spice")
            out["spice"] = s.getvalue()
        out["stage"] = "done"
    except Exception as e:  # noqa
        out["exc"] = short_exc(e)
        out["exc_type"] = type(e).__name__
    return out


def check_valid(design, spice=True, allow_invalid=False):
    """C01 oracle for one design that R calls valid: returns None (agrees) or a dict describing the disagreement."""
    try:
        rdev, rpart = refsem.R(design)
    except refsem.Invalid as e:
        if allow_invalid:
            return "skip"
        return dict(kind="family_bug", detail=f"reference semantics calls the design invalid: {e}")
    res = export(design, want_spice=spice)
    if res["exc"] is not None:
        if refsem.derivation_cycle(design):
            return "grey_raised"  # a net defined in terms of itself through a slice/concat: raise-or-correct
        return dict(kind="rejected_valid", stage=res["stage"], exc=res["exc"])
    try:
        odev, opart = observe.O_pkg(res["pkg"], design)
    except observe.Malformed as e:
        return dict(kind="malformed_package", detail=str(e))
    d = observe.devices_agree(rdev, odev)
    if d:
        return dict(kind="devices", detail=d)
    if opart != rpart:
        return dict(kind="partition", diff=observe.partition_diff(rpart, opart))
    if spice and res["spice"] is not None and spice_ok(design):
        try:
            sdev, spart = observe.O_spice(res["spice"], design)
        except observe.Malformed as e:
            return dict(kind="malformed_netlist", detail=str(e))
        if set(sdev) != set(rdev):
            return dict(kind="spice_devices", detail=f"{sorted(set(sdev) ^ set(rdev))[:4]}")
        if spart != rpart:
            return dict(kind="spice_partition", diff=observe.partition_diff(rpart, spart))
    return None


def spice_ok(design):
    """The SPICE reading is only attempted when module names are unique after the netlister's name shortening."""
    return True
