"""
Observers: reduce what the library produced to the same (devices, partition) shape that refsem.R returns.

  O_pkg(pkg, design)    reads the vlsir.circuit.Package the way every vlsirtools netlister reads it:
                        Slice.top inclusive, Concat.parts first-part-most-significant.
  O_spice(text, design) a second, independent reading of the SPICE netlist text (positional, scalar nets only).

No hdl21 import: only protobuf messages / text are looked at.
"""

import re
from fractions import Fraction
from .refsem import UF, target_ports, top_port_names

VLSIR_PRIMS = {
    "resistor": ("R", ["p", "n"]), "capacitor": ("C", ["p", "n"]), "inductor": ("L", ["p", "n"]),
    "vdc": ("Vdc", ["p", "n"]), "vpulse": ("Vpulse", ["p", "n"]), "vsin": ("Vsin", ["p", "n"]), "isource": ("Idc", ["p", "n"]),
    "vcvs": ("Vcvs", ["p", "n", "cp", "cn"]), "vccs": ("Vccs", ["p", "n", "cp", "cn"]),
    "ccvs": ("Ccvs", ["p", "n", "cp", "cn"]), "cccs": ("Cccs", ["p", "n", "cp", "cn"]),
}
HDL21_PRIMS = {
    "Mos": ("Mos", ["d", "g", "s", "b"]), "PhysicalResistor": ("Res2", ["p", "n"]), "PhysicalCapacitor": ("Cap2", ["p", "n"]),
    "ThreeTerminalResistor": ("Res3", ["p", "n", "b"]), "ThreeTerminalCapacitor": ("Cap3", ["p", "n", "b"]),
    "PhysicalInductor": ("Ind2", ["p", "n"]), "ThreeTerminalInductor": ("Ind3", ["p", "n", "b"]),
    "Diode": ("Diode", ["p", "n"]), "Bipolar": ("Bipolar", ["c", "b", "e"]), "PhysicalShort": ("Short", ["p", "n"]),
}
PREFIX_EXP = {
    "YOCTO": -24, "ZEPTO": -21, "ATTO": -18, "FEMTO": -15, "PICO": -12, "NANO": -9, "MICRO": -6, "MILLI": -3, "CENTI": -2,
    "DECI": -1, "DECA": 1, "HECTO": 2, "KILO": 3, "MEGA": 6, "GIGA": 9, "TERA": 12, "PETA": 15, "EXA": 18, "ZETTA": 21,
    "YOTTA": 24, "UNIT": 0,
}


class Malformed(Exception):
    """The package / netlist cannot be read consistently (dangling name, out-of-range bit, width drift…)."""


def param_value(pv):
    """Exact python value of a vlsir ParamValue."""
    import vlsir

    w = pv.WhichOneof("value")
    if w == "int64_value":
        return pv.int64_value
    if w == "double_value":
        return pv.double_value
    if w == "string_value":
        return pv.string_value
    if w == "literal":
        return pv.literal
    if w == "prefixed":
        p = pv.prefixed
        ww = p.WhichOneof("number")
        exp = PREFIX_EXP[vlsir.SIPrefix.Name(p.prefix)]
        if ww == "int64_value":
            num = Fraction(p.int64_value)
        elif ww == "double_value":
            num = Fraction(p.double_value)
        else:
            num = Fraction(p.string_value)
        val = num * Fraction(10) ** exp
        return int(val) if val.denominator == 1 else str(val)
    return None


def canon_names(modspec, inst_names):
    """Map package instance names of one module to canonical path elements (see refsem docstring)."""
    out = {}
    if modspec is None:
        return {n: n for n in inst_names}
    declared = {d[1]: d for d in modspec["decls"] if d[0] in ("inst", "array", "pair")}
    rest = []
    for n in inst_names:
        if n in declared and declared[n][0] == "inst":
            out[n] = n
        else:
            rest.append(n)
    used = set(out.values())
    for n in rest:
        cands = []
        for dn, d in declared.items():
            if d[0] == "array":
                m = re.fullmatch(re.escape(dn) + r"_(\d+)_*", n)
                if m and int(m.group(1)) < d[3]:
                    cands.append(f"{dn}#{int(m.group(1))}")
            elif d[0] == "pair":
                m = re.fullmatch(re.escape(dn) + r"_(p|n)_*", n)
                if m:
                    cands.append(f"{dn}#{m.group(1)}")
        cands = [c for c in cands if c not in used]
        if len(cands) >= 1:
            out[n] = cands[0]
            used.add(cands[0])
        else:
            out[n] = "?" + n
    return out


def spec_for(design, pkg_modname):
    """The spec Mod that package module `pkg_modname` was built from (matched on the name's last component)."""
    if design is None:
        return None
    base = pkg_modname.split(".")[-1] if "(" not in pkg_modname else pkg_modname[: pkg_modname.index("(")].split(".")[-1]
    for mn, m in design["modules"].items():
        if m.get("name") == base or mn == base:
            return m
    return None


def find_top(pkg):
    used = set()
    for m in pkg.modules:
        for i in m.instances:
            if i.module.WhichOneof("to") == "local":
                used.add(i.module.local)
    tops = [m.name for m in pkg.modules if m.name not in used]
    if len(tops) != 1:
        raise Malformed(f"cannot determine top: {tops}")
    return tops[0]


def target_bits(t, sigs, path):
    """LSB-first list of nodes denoted by ConnectionTarget `t` in a module with signals `sigs` at `path`."""
    w = t.WhichOneof("stype")
    if w == "sig":
        if t.sig not in sigs:
            raise Malformed(f"undeclared signal {t.sig}")
        return [(path, t.sig, k) for k in range(sigs[t.sig])]
    if w == "slice":
        s = t.slice
        if s.signal not in sigs:
            raise Malformed(f"undeclared signal {s.signal}")
        if not (0 <= s.bot <= s.top < sigs[s.signal]):
            raise Malformed(f"slice {s.signal}[{s.top}:{s.bot}] outside width {sigs[s.signal]}")
        return [(path, s.signal, k) for k in range(s.bot, s.top + 1)]
    if w == "concat":
        out = []
        for part in reversed(t.concat.parts):  # netlisters print the first part against the most significant bits
            out.extend(target_bits(part, sigs, path))
        return out
    raise Malformed(f"empty connection target")


def O_pkg(pkg, design=None, top=None):
    mods = {m.name: m for m in pkg.modules}
    if len(mods) != len(pkg.modules):
        raise Malformed("duplicate module names")
    exts = {(e.name.domain, e.name.name): e for e in pkg.ext_modules}
    top = top or find_top(pkg)
    uf = UF()
    devices = {}
    keep = set()

    def walk(mname, path, depth):
        if depth > 40:
            raise Malformed("instantiation cycle")
        m = mods[mname]
        sigs = {s.name: s.width for s in m.signals}
        if len(sigs) != len(m.signals):
            raise Malformed(f"duplicate signal names in {mname}")
        names = canon_names(spec_for(design, mname), [i.name for i in m.instances])
        if len(set(names.values())) != len(m.instances):
            raise Malformed(f"duplicate instance names in {mname}")
        for inst in m.instances:
            cpath = path + (names[inst.name],)
            which = inst.module.WhichOneof("to")
            if which == "local":
                if inst.module.local not in mods:
                    raise Malformed(f"dangling module {inst.module.local}")
                child = mods[inst.module.local]
                csigs = {s.name: s.width for s in child.signals}
                cports = {p.signal: csigs.get(p.signal) for p in child.ports}
                leaf = None
            else:
                q = inst.module.external
                if q.domain == "vlsir.primitives" and q.name in VLSIR_PRIMS:
                    leaf, pl = VLSIR_PRIMS[q.name]
                    cports = {p: 1 for p in pl}
                    leaf = ("prim", leaf)
                elif q.domain == "hdl21.primitives" and q.name in HDL21_PRIMS:
                    leaf, pl = HDL21_PRIMS[q.name]
                    cports = {p: 1 for p in pl}
                    leaf = ("prim", leaf)
                elif (q.domain, q.name) in exts:
                    e = exts[(q.domain, q.name)]
                    esigs = {s.name: s.width for s in e.signals}
                    cports = {p.signal: esigs.get(p.signal) for p in e.ports}
                    leaf = ("ext", q.name)
                else:
                    raise Malformed(f"dangling external reference {q.domain}.{q.name}")
            seen = set()
            for c in inst.connections:
                if c.portname in seen:
                    raise Malformed(f"port {c.portname} of {inst.name} connected twice")
                seen.add(c.portname)
                if c.portname not in cports or cports[c.portname] is None:
                    raise Malformed(f"connection to non-existent port {c.portname} of {inst.name}")
                bits = target_bits(c.target, sigs, path)
                if len(bits) != cports[c.portname]:
                    raise Malformed(f"width drift on {inst.name}.{c.portname}: {len(bits)} vs {cports[c.portname]}")
                for k, b in enumerate(bits):
                    uf.union((cpath, c.portname, k), b)
            if leaf is None:
                walk(inst.module.local, cpath, depth + 1)
            else:
                devices[cpath] = (leaf[0], leaf[1], tuple(sorted((p.name, canonv(param_value(p.value))) for p in inst.parameters)))
                for p, w in cports.items():
                    for k in range(w):
                        n = (cpath, p, k)
                        uf.find(n)
                        keep.add(n)

    walk(top, (), 0)
    tm = mods[top]
    tsigs = {s.name: s.width for s in tm.signals}
    rename = top_port_renaming(design, [p.signal for p in tm.ports]) if design is not None else {}
    for p in tm.ports:
        if p.signal not in tsigs:
            raise Malformed(f"port {p.signal} names no signal")
        for k in range(tsigs[p.signal]):
            n = ((), p.signal, k)
            uf.find(n)
            keep.add(n)
    classes = {}
    for n in keep:
        nn = n if not (n[0] == () and n[1] in rename) else ((), rename[n[1]], n[2])
        classes.setdefault(uf.find(n), set()).add(nn)
    return devices, frozenset(frozenset(c) for c in classes.values())


def top_port_renaming(design, port_names):
    """Map the package's top-level port names to the labels refsem uses: a declared scalar port keeps its name; a port
    whose name (minus collision-avoidance underscores) is the documented flattened name of a bundle-port member is
    labelled `port.member.path`."""
    from .refsem import top_port_labels, scalar_top_ports

    labels = top_port_labels(design)
    scalars = scalar_top_ports(design)
    mod = design["modules"][design["top"]]
    flat = {}
    from .refsem import bundle_leaves
    for d in mod["decls"]:
        if d[0] == "bport":
            for p, w in bundle_leaves(design, d[2]):
                flat[d[1] + "_" + "_".join(p)] = d[1] + "." + ".".join(p)
    out = {}
    used = set()
    for nm in port_names:
        if nm in scalars:
            continue
        base = nm.rstrip("_")
        for cand in (nm, base):
            if cand in flat and flat[cand] not in used:
                out[nm] = flat[cand]
                used.add(flat[cand])
                break
    return out


def canonv(v):
    return v if isinstance(v, (int, str)) or v is None else repr(v)


def devices_agree(rdev, odev):
    """R's devices vs observed devices: same paths, same kind/name, and every parameter the spec gave has that value."""
    if set(rdev) != set(odev):
        return f"device paths differ: only-in-design={sorted(set(rdev)-set(odev))[:4]} only-in-package={sorted(set(odev)-set(rdev))[:4]}"
    for p, (k, n, params) in rdev.items():
        ok, on, oparams = odev[p]
        if (k, n) != (ok, on):
            return f"device {p}: {k}.{n} exported as {ok}.{on}"
        od = dict(oparams)
        for pk, pv in params:
            if pk not in od or od[pk] != pv:
                return f"device {p}: parameter {pk}={pv!r} exported as {od.get(pk)!r}"
    return None


def partition_diff(a, b, limit=3):
    """Readable difference between two partitions."""
    onlya = [sorted(c) for c in a - b]
    onlyb = [sorted(c) for c in b - a]
    return dict(design_only=sorted(onlya)[:limit], observed_only=sorted(onlyb)[:limit])


# ------------------------------------------------------------------------------------------------
# SPICE text reading
# ------------------------------------------------------------------------------------------------
SPICE_LEAF = {"r": ("R", ["p", "n"]), "c": ("C", ["p", "n"]), "l": ("L", ["p", "n"]), "v": ("Vdc", ["p", "n"]), "i": ("Idc", ["p", "n"]),
              "e": ("Vcvs", ["p", "n", "cp", "cn"]), "g": ("Vccs", ["p", "n", "cp", "cn"]), "h": ("Ccvs", ["p", "n", "cp", "cn"]), "f": ("Cccs", ["p", "n", "cp", "cn"])}


def parse_spice(text):
    """{subckt name: (header nets, [(prefix, instname, nets, third-line token)])} from vlsirtools SPICE output."""
    subs = {}
    cur = None
    lines = text.splitlines()
    i = 0
    while i < len(lines):
        ln = lines[i].strip()
        if ln.upper().startswith(".SUBCKT"):
            name = ln.split()[1]
            nets = []
            if i + 1 < len(lines) and lines[i + 1].startswith("+"):
                nets = lines[i + 1][1:].split()
                i += 1
            cur = (nets, [])
            if name in subs:
                raise Malformed(f"subckt {name} defined twice")
            subs[name] = cur
        elif ln.upper().startswith(".ENDS"):
            cur = None
        elif cur is not None and ln and not ln.startswith(("*", "+", ".")):
            head = ln
            conts = []
            j = i + 1
            while j < len(lines) and lines[j].startswith("+"):
                conts.append(lines[j][1:].strip())
                j += 1
            nets = conts[0].split() if conts and not conts[0].startswith("*") else []
            third = conts[1].split()[0] if len(conts) > 1 and conts[1] else None
            cur[1].append((head[0].lower(), head[1:], nets, third))
            i = j - 1
        i += 1
    return subs


def O_spice(text, design, top_subckt=None):
    """(devices-without-params, partition) from netlist text; leaf ext-module port expansion comes from the design spec."""
    subs = parse_spice(text)
    used = {t for (_h, insts) in subs.values() for (pf, _n, _nets, t) in insts if pf == "x"}
    tops = [s for s in subs if s not in used]
    if top_subckt is None:
        if len(tops) != 1:
            raise Malformed(f"cannot determine top subckt: {tops}")
        top_subckt = tops[0]
    uf = UF()
    keep = set()
    devices = {}

    def ext_expand(ename):
        out = []
        for p in design["exts"][ename]["ports"]:
            for k in reversed(range(p[1])):
                out.append((p[0], k))
        return out

    def walk(sname, path):
        header, insts = subs[sname]
        modspec = None
        for mn, m in design["modules"].items():
            if m.get("name") == sname or sname.startswith(str(m.get("name")) + "("):
                modspec = m
        names = canon_names(modspec, [n for (_p, n, _nets, _t) in insts])
        for pf, n, nets, third in insts:
            cpath = path + (names[n],)
            if pf == "x" and third in subs:
                ch = subs[third][0]
                if len(ch) != len(nets):
                    raise Malformed(f"{n}: {len(nets)} nets for {len(ch)} ports of {third}")
                for a, b in zip(ch, nets):
                    uf.union((cpath, "net", a), (path, "net", b))
                walk(third, cpath)
            else:
                if pf == "x":
                    if third not in design["exts"]:
                        raise Malformed(f"{n}: unknown subckt {third}")
                    terms = ext_expand(third)
                    devices[cpath] = ("ext", third)
                else:
                    nm, pl = SPICE_LEAF[pf]
                    terms = [(p, 0) for p in pl]
                    devices[cpath] = ("prim", nm)
                if len(terms) != len(nets):
                    raise Malformed(f"{n}: {len(nets)} nets for {len(terms)} terminals")
                for (p, k), b in zip(terms, nets):
                    t = (cpath, p, k)
                    keep.add(t)
                    uf.union(t, (path, "net", b))

    walk(top_subckt, ())
    header = subs[top_subckt][0]
    from .refsem import top_port_labels

    exp_l = top_port_labels(design)
    for name, (label, w) in exp_l.items():
        for k in range(w):
            cands = [name] if w == 1 else [f"{name}_{k}"]
            hit = [c for c in cands if c in header]
            if not hit:
                # collision-avoided name (trailing underscores)
                hit = [hn for hn in header if (hn.rstrip("_") == name if w == 1 else re.fullmatch(re.escape(name) + r"_*_" + str(k), hn))]
            if not hit:
                raise Malformed(f"top port bit {name}[{k}] not in header {header}")
            t = ((), label, k)
            keep.add(t)
            uf.union(t, ((), "net", hit[0]))
    classes = {}
    for n in keep:
        classes.setdefault(uf.find(n), set()).add(n)
    return devices, frozenset(frozenset(c) for c in classes.values())
