"""hv — bounded-exhaustive model checking harness for Hdl21 (see /verif/DESIGN.md)."""
