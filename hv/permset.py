"""
A `set` whose iteration order is owned by the explorer (C12).

All cross-process nondeterminism enters Hdl21 through the iteration order of hash sets whose elements hash by id() or by
randomised str hash.  `install()` binds the module-global name `set` of every loaded `hdl21.*` module to PermSet, a set
subclass that remembers insertion order and, at every iteration of a set with >= 2 elements, asks the controller which
permutation to use.  Default answer = insertion order (hash independent); a *deviation* is any other permutation at
one choice point.
"""

import sys, itertools

_builtin_set = set


class Controller:
    def __init__(self):
        self.plan = {}  # choice point index -> permutation (tuple of positions)
        self.points = []  # sizes of the choice points met in this run
        self.active = False

    def reset(self, plan=None):
        self.plan = dict(plan or {})
        self.points = []

    def order(self, items):
        if not self.active or len(items) < 2:
            return items
        k = len(self.points)
        self.points.append(len(items))
        perm = self.plan.get(k)
        if perm is None:
            return items
        if len(perm) != len(items):
            raise Divergence(f"choice point {k}: planned a permutation of {len(perm)} elements, set has {len(items)}")
        return [items[i] for i in perm]


class Divergence(Exception):
    pass


CTL = Controller()


class PermSet(_builtin_set):
    def __init__(self, iterable=()):
        super().__init__()
        self._order = []
        for x in iterable:
            self.add(x)

    def add(self, x):
        if x not in self:
            super().add(x)
            self._order.append(x)

    def remove(self, x):
        super().remove(x)
        self._drop(x)

    def discard(self, x):
        if x in self:
            super().discard(x)
            self._drop(x)

    def _drop(self, x):
        for i, y in enumerate(self._order):
            if y is x or y == x:
                del self._order[i]
                return

    def pop(self):
        if not self._order:
            raise KeyError("pop from an empty set")
        x = CTL.order(list(self._order))[0]
        self.remove(x)
        return x

    def clear(self):
        super().clear()
        self._order = []

    def update(self, *others):
        for o in others:
            for x in o:
                self.add(x)

    def __ior__(self, other):
        self.update(other)
        return self

    def __iter__(self):
        return iter(CTL.order(list(self._order)))

    def copy(self):
        return PermSet(self._order)

    def __reduce__(self):
        return (PermSet, (list(self._order),))


def install():
    """Rebind `set` in every loaded hdl21 module.  Returns the number of modules patched."""
    n = 0
    for name, mod in list(sys.modules.items()):
        if mod is not None and (name == "hdl21" or name.startswith("hdl21.")) and not name.startswith("hdl21.tests"):
            if getattr(mod, "set", None) is not PermSet:
                try:
                    mod.set = PermSet
                    n += 1
                except Exception:
                    pass
    return n


def uninstall():
    for name, mod in list(sys.modules.items()):
        if mod is not None and (name == "hdl21" or name.startswith("hdl21.")):
            if getattr(mod, "set", None) is PermSet:
                try:
                    del mod.set
                except Exception:
                    pass


def alternatives(k, cap=4):
    """Non-identity permutations of k positions: all k!-1 for k <= cap, else transpositions + reversal."""
    ident = tuple(range(k))
    if k <= cap:
        return [p for p in itertools.permutations(range(k)) if p != ident]
    out = []
    for i in range(k):
        for j in range(i + 1, k):
            p = list(ident)
            p[i], p[j] = p[j], p[i]
            out.append(tuple(p))
    out.append(tuple(reversed(ident)))
    return out
