"""
A `set` whose iteration order is owned by the explorer (C12).

All cross-process nondeterminism enters Hdl21 through the iteration order of hash sets whose elements hash by id() or by
randomised str hash.  `install()` binds the module-global name `set` of every loaded `hdl21.*` module to PermSet, a set
subclass that remembers insertion order and, at every iteration of a set with >= 2 elements, asks the controller which
permutation to use.  Default answer = insertion order (hash independent); a *deviation* is any other permutation at
one choice point.
"""

import sys, itertools

_builtin_set = set


class Controller:
    def __init__(self):
        self.plan = {}  # choice point index -> permutation (tuple of positions)
        self.points = []  # sizes of the choice points met in this run
        self.active = False

    def reset(self, plan=None):
        self.plan = dict(plan or {})
        self.points = []

    def order(self, items):
        if not self.active or len(items) < 2:
            return items
        k = len(self.points)
        self.points.append(len(items))
        perm = self.plan.get(k)
        if perm is None:
            return items
        if len(perm) != len(items):
            raise Divergence(f"choice point {k}: planned a permutation of {len(perm)} elements, set has {len(items)}")
        return [items[i] for i in perm]


class Divergence(Exception):
    pass


CTL = Controller()


class PermSet(_builtin_set):
    def __init__(self, iterable=()):
        super().__init__()
        self._order = []
        for x in iterable:
            self.add(x)

    def add(self, x):
        if x not in self:
            super().add(x)
            self._order.append(x)

    def remove(self, x):
        super().remove(x)
        self._drop(x)

    def discard(self, x):
        if x in self:
            super().discard(x)
            self._drop(x)

    def _drop(self, x):
        for i, y in enumerate(self._order):
            if y is x or y == x:
                del self._order[i]
                return

    def pop(self):
        if not self._order:
            raise KeyError("pop from an empty set")
        x = CTL.order(list(self._order))[0]
        self.remove(x)
        return x

    def clear(self):
        super().clear()
        self._order = []

    def update(self, *others):
        for o in others:
            for x in o:
                self.add(x)

    def __ior__(self, other):
        self.update(other)
        return self

    def __iter__(self):
        return iter(CTL.order(list(self._order)))

    # ---- set algebra: results stay under the explorer's control, in an order that does not depend on hashes ----
    def union(self, *others):
        r = PermSet(self._order)
        r.update(*others)
        return r

    def intersection(self, *others):
        others = [o if isinstance(o, (_builtin_set, frozenset, dict)) else _builtin_set(o) for o in others]
        return PermSet([x for x in self._order if all(x in o for o in others)])

    def difference(self, *others):
        others = [o if isinstance(o, (_builtin_set, frozenset, dict)) else _builtin_set(o) for o in others]
        return PermSet([x for x in self._order if not any(x in o for o in others)])

    def symmetric_difference(self, other):
        other = _ordered(other)
        mine = _builtin_set(self._order)
        theirs = _builtin_set(other)
        return PermSet([x for x in self._order if x not in theirs] + [x for x in other if x not in mine])

    def _binop(name):
        def op(self, other):
            if not isinstance(other, (_builtin_set, frozenset)) and not hasattr(other, "isdisjoint"):
                return NotImplemented
            return getattr(self, name)(other)

        return op

    __or__, __and__, __sub__, __xor__ = _binop("union"), _binop("intersection"), _binop("difference"), _binop("symmetric_difference")

    def __ror__(self, other):
        return PermSet(_ordered(other)).union(self)

    def __rand__(self, other):
        return PermSet(_ordered(other)).intersection(self)

    def __rsub__(self, other):
        return PermSet(_ordered(other)).difference(self)

    def __rxor__(self, other):
        return PermSet(_ordered(other)).symmetric_difference(self)

    def _inplace(name):
        def op(self, *others):
            r = getattr(self, name)(*others)
            _builtin_set.clear(self)
            self._order = []
            for x in r._order:
                self.add(x)

        return op

    difference_update, intersection_update, symmetric_difference_update = _inplace("difference"), _inplace("intersection"), _inplace("symmetric_difference")

    def __isub__(self, other):
        self.difference_update(other)
        return self

    def __iand__(self, other):
        self.intersection_update(other)
        return self

    def __ixor__(self, other):
        self.symmetric_difference_update(other)
        return self

    del _binop, _inplace

    def copy(self):
        return PermSet(self._order)

    def __reduce__(self):
        return (PermSet, (list(self._order),))


def _ordered(x):
    """Elements of an operand of set algebra in an order of its own: insertion order for PermSets, dicts, dict views and
    sequences; for a plain hash set there is none - sorted by repr where possible (a stable stand-in)."""
    if isinstance(x, PermSet):
        return list(x._order)
    if isinstance(x, (_builtin_set, frozenset)):
        try:
            return sorted(x, key=repr)
        except Exception:
            return list(x)
    return list(x)


def own_setop(opname, a, b):
    """`a <op> b` for op in - | & ^, as compiled by hv/setseam.py for every such expression in the hdl21 sources: computed
    as usual; if the result is a plain hash set (set algebra of dict views, of plain sets) it is handed back as a PermSet
    whose default order follows the operands' own order."""
    import operator

    r = {"sub": operator.sub, "or": operator.or_, "and": operator.and_, "xor": operator.xor}[opname](a, b)
    if type(r) is _builtin_set:
        seen, order = _builtin_set(), []
        for src in (a, b):
            for x in _ordered(src):
                if x in r and x not in seen:
                    seen.add(x)
                    order.append(x)
        return PermSet(order)
    return r


def install():
    """Rebind `set` in every loaded hdl21 module.  Returns the number of modules patched."""
    n = 0
    for name, mod in list(sys.modules.items()):
        if mod is not None and (name == "hdl21" or name.startswith("hdl21.")) and not name.startswith("hdl21.tests"):
            if getattr(mod, "set", None) is not PermSet:
                try:
                    mod.set = PermSet
                    n += 1
                except Exception:
                    pass
    return n


def uninstall():
    for name, mod in list(sys.modules.items()):
        if mod is not None and (name == "hdl21" or name.startswith("hdl21.")):
            if getattr(mod, "set", None) is PermSet:
                try:
                    del mod.set
                except Exception:
                    pass


def alternatives(k, cap=4):
    """Non-identity permutations of k positions: all k!-1 for k <= cap, else transpositions + reversal."""
    ident = tuple(range(k))
    if k <= cap:
        return [p for p in itertools.permutations(range(k)) if p != ident]
    out = []
    for i in range(k):
        for j in range(i + 1, k):
            p = list(ident)
            p[i], p[j] = p[j], p[i]
            out.append(tuple(p))
    out.append(tuple(reversed(ident)))
    return out
