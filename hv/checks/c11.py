"""
C11 — exported packages survive a round trip through from_proto (engine E1 corpora; differential oracle P == to_proto(from_proto(P))).

Corpora: every package of the design families, the parameter space of C13 (every primitive x field x value), external
modules with every SpiceType / port direction / parameter type, module literals, the example scripts and generators.
"""

import importlib, difflib
from ..core import short_exc
from . import c13, c06

FAMILIES = ["f1_expr", "f2_portrefs", "f3_noconn", "f4_bundles", "f5_arrays", "f6_pairs", "f7_hier", "f8_names", "f9_multifeed"]


def roundtrip(pkg):
    """None if to_proto(from_proto(pkg)) == pkg, else a short description of the first difference."""
    import hdl21 as h

    try:
        ns = h.from_proto(pkg)
    except Exception as e:
        return "from_proto raised: " + short_exc(e)
    mods = []
    try:
        used = {i.module.local for m in pkg.modules for i in m.instances if i.module.WhichOneof("to") == "local"}
        for pm in pkg.modules:
            if pm.name in used:
                continue  # only the top-level modules are exported again; their dependencies follow depth-first
            o = ns
            for seg in pm.name.split("."):
                o = getattr(o, seg)
            mods.append(o)
        p2 = h.to_proto(mods, domain=pkg.domain)
    except Exception as e:
        return "re-export raised: " + short_exc(e)
    if p2 == pkg:
        return None
    a, b = str(pkg).splitlines(), str(p2).splitlines()
    d = [l for l in difflib.unified_diff(a, b, lineterm="", n=2) if not l.startswith(("---", "+++", "@@"))]
    return "differs: " + " | ".join(x.strip() for x in d[:10])


def _fam_one(item):
    import hdl21 as h
    from ..build import build

    fname, desc = item
    mod = importlib.import_module(f"hv.families.{fname}")
    fam, design = mod.design(desc)
    try:
        pkg = h.to_proto(build(design).top)
    except Exception:
        return fam, "raised", None, None
    r = roundtrip(pkg)
    return fam, "pkg", r, (design if r else None)


def _prim_one(item):
    import hdl21 as h
    from hdl21 import primitives as hp

    pname, fname, kind, spec = item
    prim = hp._primitives[pname].prim
    kw = {}
    from hdl21.default import Default

    for fn, param in prim.paramtype.__params__.items():
        if param.default is Default and param.default_factory is Default and fn != fname:
            kw[fn] = 1
    try:
        if spec[0] == "enum":
            kw[fname] = prim.paramtype.__params__[fname].dtype[spec[2]]
        else:
            kw[fname] = c13.mk_value(spec)
        call = prim(**kw)
        m = h.Module(name="T")
        conns = {p.name: m.add(h.Signal(name="s_" + p.name)) for p in prim.port_list}
        m.add(h.Instance(name="x", of=call)(**conns))
        pkg = h.to_proto(m)
    except Exception as e:
        return "raised", None
    return "pkg", roundtrip(pkg)


def _ext_one(item):
    import hdl21 as h
    from hdl21.external_module import SpiceType

    st, dirs, pstyle, lits = item
    try:
        ports = []
        for k, d in enumerate(dirs):
            ctor = {"in": h.Input, "out": h.Output, "inout": h.Inout, "none": h.Port}[d]
            ports.append(ctor(name=f"p{k}", width=1 + (k % 2)))
        e = h.ExternalModule(name="E", port_list=ports, paramtype=dict, domain=("" if pstyle == "ints" else "extdom"), desc="an external module", spicetype=getattr(SpiceType, st))
        params = {"none": {}, "ints": dict(a=1, b=-5), "mixed": dict(a=1, s="txt", f=1.5, p=3 * h.prefix.n, l=h.Literal("w*2")),
                  # floats with whole values stay floats; zero, False-like and large values
                  "wholefloats": dict(f2=2.0, fm=-2.0, f0=0.0, big=1e19, i0=0, e="")}[pstyle]
        m = h.Module(name="T")
        conns = {p.name: m.add(h.Signal(name="s_" + p.name, width=p.width)) for p in ports}
        m.add(h.Instance(name="x", of=e(params))(**conns))
        for t in lits:
            m.literals.append(h.Literal(t))
        pkg = h.to_proto(m, domain="topdom")
    except Exception as ex:
        return "raised:" + short_exc(ex), None
    return "pkg", roundtrip(pkg)


SPELLINGS = {"1000": ["1*K", "1000*UNIT", "int", "float", "0.001*M"], "0.002": ["2*m", "2000*u", "float", "0.002*UNIT"], "2": ["int", "float", "2*UNIT", "2000*m"]}


def _spell(h, value, how):
    from decimal import Decimal
    from hdl21.prefix import Prefix, Prefixed

    if how == "int":
        return int(value)
    if how == "float":
        return float(value)
    num, sym = how.split("*")
    pre = {"K": Prefix.KILO, "UNIT": Prefix.UNIT, "M": Prefix.MEGA, "m": Prefix.MILLI, "u": Prefix.MICRO}[sym]
    return Prefixed(number=Decimal(num), prefix=pre)


def _twins(item):
    """Two instances of one target in one module whose parameter values are one number written in two ways: each keeps
    its own spelling through the round trip."""
    import hdl21 as h

    target, value, a, b = item
    try:
        va, vb = _spell(h, value, a), _spell(h, value, b)
        m = h.Module(name="T")
        m.s, m.t = h.Signal(), h.Signal()
        if target == "R":
            ca, cb = h.R(r=va), h.R(r=vb)
        elif target == "ext_dict":
            e = h.ExternalModule(name="E", port_list=[h.Port(name="p"), h.Port(name="n")], paramtype=dict, domain="extdom")
            ca, cb = e(dict(k=va, j=1)), e(dict(k=vb, j=1))
        else:
            @h.paramclass
            class EP:
                k = h.Param(dtype=h.Scalar, desc="k")

            e = h.ExternalModule(name="E", port_list=[h.Port(name="p"), h.Port(name="n")], paramtype=EP, domain="extdom")
            ca, cb = e(EP(k=va)), e(EP(k=vb))
        m.x1 = ca(p=m.s, n=m.t)
        m.x2 = cb(p=m.s, n=m.t)
        m.x3 = ca(p=m.t, n=m.s)
        pkg = h.to_proto(m)
    except Exception as ex:
        return "raised:" + short_exc(ex), None
    return "pkg", roundtrip(pkg)


def run(ctx):
    titems = [(t, v, a, b) for t in ("R", "ext_dict", "ext_pc") for v, sp in SPELLINGS.items() for a in sp for b in sp if a != b]
    for it, (st, r) in zip(titems, ctx.pmap(_twins, titems, chunk=20)):
        ctx.count(states=1, transitions=3, traces_validated_against_impl=1)
        ctx.fam("equal_values_spelled_differently", packages=1)
        ctx.outcome(("diff" if r else "same" if st == "pkg" else st[:30]) + ":twins")
        if r:
            ctx.violation(dict(corpus="twins", target=it[0], what=classify(r)), dict(twins=list(it)), r)
    # (a) families
    items = []
    for f in FAMILIES:
        mod = importlib.import_module(f"hv.families.{f}")
        its = mod.items("quick")
        if ctx.quick and len(its) > 3000:
            step = len(its) // 3000 + 1
            its = its[ctx.seed % step :: step]
            ctx.cap(f"{f}: every {step}-th design (offset {ctx.seed % step}) in the quick tier")
        items += [(f, d) for d in its]
    res = ctx.pmap(_fam_one, items)
    for (fname, desc), (fam, status, r, design) in zip(items, res):
        ctx.fam(fname, **{status: 1})
        if status != "pkg":
            continue
        ctx.count(states=1, transitions=3, traces_validated_against_impl=1)
        ctx.outcome(("diff" if r else "same") + ":" + fam)
        if r:
            ctx.violation(dict(corpus="family", family=fname, what=classify(r)), dict(family=fam, design=design), r)
    # (b) primitive parameter space
    plan = c13.field_plan()
    sv = [v for v in c13.scalar_values(True) if v[0] != "prefixed" or v[2] in (-24, -21, -18, -15, -12, -9, -6, -3, -2, -1, 0, 1, 2, 3, 6, 9, 12, 15, 18, 21, 24) and v[1] in ("1", "1.50", "123456789.123456789", "1E+19", "-0.000001", "1.00000000000000000001")]
    pitems = []
    for pname, fname, kind, optional in plan:
        if kind == "scalar":
            vals = sv if not any(p[0] == pname for p in pitems) else [v for v in sv if v[0] != "prefixed" or v[2] in (-9, 0, 3)]
        elif kind == "str":
            vals = [("str", s) for s in c13.TEXTSTR]
        elif kind.startswith("enum:"):
            vals = [("enum", m, m) for m in kind[5:].split(",")]
        else:
            continue
        if optional:
            vals = vals + [("none",)]
        pitems += [(pname, fname, kind, v) for v in vals]
    res = ctx.pmap(_prim_one, pitems, chunk=100)
    for it, (status, r) in zip(pitems, res):
        ctx.fam("primitive_params", **{status: 1})
        if status != "pkg":
            continue
        ctx.count(states=1, transitions=3, traces_validated_against_impl=1)
        ctx.outcome(("diff" if r else "same") + ":prim:" + it[0])
        if r:
            ctx.violation(dict(corpus="primitive", primitive=it[0], field=it[1], value_type=it[3][0], what=classify(r)), dict(primitive=it[0], field=it[1], kind=it[2], value=it[3]), r)
    # (c) external modules
    eitems = []
    for st in ("SUBCKT", "RESISTOR", "CAPACITOR", "INDUCTOR", "MOS", "DIODE", "BIPOLAR", "VSOURCE", "ISOURCE", "VCVS", "VCCS", "CCCS", "CCVS", "TLINE"):
        for dirs in (("none", "none"), ("in", "out", "inout"), ("out", "none", "in", "inout")):
            for pstyle in ("none", "ints", "mixed", "wholefloats"):
                for lits in ((), ("lit one", "lit two"), ("  an indented line", "trailing blanks   ", "+ continuation \\\n", "\tboth\t\n"),
                             (".control", "alter r1 = 2k", "run", "alter r1 = 2k", "run", ".endc")):  # repeated lines
                    eitems.append((st, dirs, pstyle, lits))
    for it in eitems:
        status, r = _ext_one(it)
        ctx.fam("external_modules", **{status.split(":")[0]: 1})
        if status != "pkg":
            ctx.outcome("raised:ext:" + status[:40])
            continue
        ctx.count(states=1, transitions=3, traces_validated_against_impl=1)
        ctx.outcome(("diff" if r else "same") + ":ext:" + it[0])
        if r:
            ctx.violation(dict(corpus="external", spicetype=it[0] if "spicetype" in r else "*", params=it[2], what=classify(r)), dict(item=[it[0], list(it[1]), it[2], list(it[3])]), r)
    # (c2) modules without a Python-module path (defined through exec / a notebook cell / python -c), and nested import paths
    for variant in ("exec_flat", "exec_hier", "exec_generator"):
        code = {
            "exec_flat": "import hdl21 as h\nt = h.Module(name='ExecTop')\nt.s = h.Signal()\nt.r = h.R(r=1)(p=t.s, n=t.s)\n",
            "exec_hier": "import hdl21 as h\nm = h.Module(name='ExecMod')\nm.p = h.Port(width=2)\nm.r = h.R(r=1)(p=m.p[0], n=m.p[1])\nt = h.Module(name='ExecTop')\nt.s = h.Signal(width=2)\nt.i = m(p=t.s)\nt.j = m(p=h.Concat(t.s[1], t.s[0]))\n",
            "exec_generator": "import hdl21 as h\n@h.paramclass\nclass P:\n    k = h.Param(dtype=int, desc='k')\n@h.generator\ndef G(p: P) -> h.Module:\n    m = h.Module()\n    m.p = h.Port()\n    m.r = h.R(r=p.k)(p=m.p, n=m.p)\n    return m\nt = h.Module(name='ExecTop')\nt.s = h.Signal()\nt.a = G(k=1)(p=t.s)\nt.b = G(k=2)(p=t.s)\n",
        }[variant]
        try:
            import hdl21 as h

            ns = {}
            exec(code, ns)
            pk = h.to_proto(ns["t"], domain="execdom")
            r = roundtrip(pk)
        except Exception as e:
            r = "raised: " + short_exc(e)
        ctx.count(states=1, transitions=3, traces_validated_against_impl=1)
        ctx.fam("pathless_modules", packages=1)
        ctx.outcome(("diff" if r else "same") + ":pathless")
        if r:
            ctx.violation(dict(corpus="pathless", variant=variant, what=classify(r)), dict(pathless=variant), r)
    # (c3) the same cell names defined under two library paths (fresh process; see c11_twolibs.py)
    import subprocess, sys, os, json

    script = os.path.join(os.path.dirname(__file__), "c11_twolibs.py")
    jobs = [(order, shape) for order in ("ab", "ba") for shape in ("hier", "flat", "both")]
    procs = [subprocess.Popen([sys.executable, "-W", "ignore", script, o, sh], stdout=subprocess.PIPE, stderr=subprocess.PIPE, text=True, env=dict(os.environ)) for o, sh in jobs]
    for (order, shape), pr in zip(jobs, procs):
        out, err = pr.communicate(timeout=600)
        try:
            r = json.loads(out.strip().splitlines()[-1])["result"]
        except Exception:
            r = "scenario process failed: " + err[-300:]
        ctx.count(states=1, transitions=3, traces_validated_against_impl=1)
        ctx.fam("two_libraries", packages=1)
        ctx.outcome(("diff" if r else "same") + ":twolibs")
        if r:
            ctx.violation(dict(corpus="two_libraries", shape=shape, what=classify(r)), dict(twolibs=[order, shape]), r)
    # (d) examples and generators
    for name in ["ro", "rdac", "encoder", "mos_sim", "diff_ota", "idac", "bundles"]:
        try:
            import sys
            if "/repo" not in sys.path:
                sys.path.append("/repo")
            pk = c06._capture_packages(importlib.import_module(f"examples.{name}").main)
        except Exception as e:
            continue
        for k, p in enumerate(pk):
            r = roundtrip(p)
            ctx.count(states=1, transitions=3, traces_validated_against_impl=1)
            ctx.fam("examples", packages=1)
            ctx.outcome(("diff" if r else "same") + ":example:" + name)
            if r:
                ctx.violation(dict(corpus="example", example=name, what=classify(r)), dict(example=name, package_index=k), r)
    ctx.sample(dict(corpus="family", item=items[0][0], descriptor=repr(items[0][1])[:200]))
    ctx.sample(dict(corpus="primitive", item=list(pitems[3])))
    ctx.sample(dict(corpus="external", item=[eitems[5][0], list(eitems[5][1]), eitems[5][2]]))
    ctx.assume("package equality is protobuf message equality")


def classify(r):
    if r.startswith(("from_proto raised", "re-export raised")):
        return r.split(":")[0] + ":" + r.split(":")[1].strip()[:30]
    for key in ("spicetype", "parts", "top:", "bot:", "direction", "prefix", "literal", "string_value", "int64_value", "double_value", "domain", "desc", "name:", "width", "portname", "signal"):
        if key in r:
            return "differs in " + key
    return r[:40]


def replay(body):
    if "twins" in body.get("case", {}):
        st, r = _twins(tuple(body["case"]["twins"]))
        print("replay:", st, r or "holds")
        return 1 if r else 0
    c = body["case"]
    if "design" in c:
        import hdl21 as h
        from ..build import build

        r = roundtrip(h.to_proto(build(c["design"]).top))
    elif "primitive" in c:
        r = _prim_one((c["primitive"], c["field"], c["kind"], tuple(c["value"])))[1]
    elif "item" in c:
        it = c["item"]
        r = _ext_one((it[0], tuple(it[1]), it[2], tuple(it[3])))[1]
    elif "twolibs" in c:
        import subprocess, sys, os, json

        out = subprocess.run([sys.executable, "-W", "ignore", os.path.join(os.path.dirname(__file__), "c11_twolibs.py")] + list(c["twolibs"]), capture_output=True, text=True).stdout
        r = json.loads(out.strip().splitlines()[-1])["result"]
    else:
        r = "re-run the check for example packages"
    print("replay:", r or "round trip is the identity")
    return 1 if r else 0
