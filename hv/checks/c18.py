"""
C18 — module and bundle namespaces stay coherent under any edit sequence (engine E3: BFS over operation histories with
state merging on the reference model's state, plus un-merged enumeration of all short histories).

Alphabet: names {a, b}; values of every attribute kind (internal signal, port, instance, instance array, instance pair,
bundle instance); operations m.<name> = v, m.add(v named), m.add(v, name=…).  After every operation the real object is
compared with a dict model: get(), attribute access, the six per-kind views, the combined namespace, port visibility,
parent pointers; every state is also exported and compared with the reference semantics.  Rejected operations (reserved
names, non-HDL values, deletion, sub-classing, additions after elaboration) are tried in every reachable state.
"""

import itertools
from .. import refsem, observe
from ..core import short_exc
from ..families.base import *

NAMES = ["a", "b"]
MKINDS = ["sig", "port", "inst", "array", "pair", "binst"]
FORMS = ["setattr", "add_named", "add_name_arg"]
BANNED_M = ["ports", "signals", "instances", "instarrays", "instbundles", "bundles", "literals", "props", "namespace", "add", "get"]
BKINDS = ["sig", "port", "binst"]
DIRKINDS = {"sigdir": "sig", "portdir": "port"}  # signals that carry a direction are filed by their visibility alone
BANNED_B = ["signals", "bundles", "namespace"]


def mk_value(h, env, kind):
    if kind == "sig":
        return h.Signal(width=2)
    if kind == "port":
        return h.Port(width=2)
    if kind == "sigdir":  # an internal signal that carries a direction: still an internal signal
        return h.Signal(width=2, direction=h.signal.PortDir.OUTPUT)
    if kind == "portdir":
        return h.Input(width=2)
    if kind == "inst":
        return h.Instance(of=env["leaf"])(p=env["z"])
    if kind == "array":
        return h.InstanceArray(of=env["leaf"], n=2)(p=env["z"])
    if kind == "pair":
        return h.Pair(of=env["leaf"])(p=env["z"])
    if kind == "binst":
        return env["B"]()
    raise ValueError(kind)


def fresh_module(h):
    leaf = h.Module(name="Leaf")
    leaf.p = h.Port()
    leaf.r = h.R(r=1)(p=leaf.p, n=leaf.p)
    B = h.Bundle(name="BB")
    B.x = h.Signal()
    B.y = h.Signal(width=2)
    m = h.Module(name="Subject")
    z = h.Signal()
    m.z = z
    return m, dict(leaf=leaf, B=B, z=z)


def apply_op(h, m, env, op):
    name, kind, form = op
    # "same": the object the name already holds is stored again under it
    v = mk_value(h, env, kind) if kind not in ("same", "flip") else m.namespace[name]
    if kind == "flip":
        # the signal's visibility is changed in place, then it is stored again under its name - which re-files it
        V = h.signal.Visibility
        v.vis = V.INTERNAL if v.vis == V.PORT else V.PORT
    if form == "setattr":
        setattr(m, name, v)
    elif form == "add_named":
        v.name = name
        r = m.add(v)
        if r is not v:
            raise AssertionError("add() did not return the added object")
    else:
        r = m.add(v, name=name)
        if r is not v:
            raise AssertionError("add() did not return the added object")
    return v


VIEW_OF = {"sig": "signals", "port": "ports", "inst": "instances", "array": "instarrays", "pair": "instbundles", "binst": "bundles"}


def check_module(h, m, model, objs):
    """Compare the real module with the dict model {name: kind}; objs {name: object}. Returns a problem string or None."""
    full = dict(model)
    full["z"] = "sig"
    allobjs = dict(objs)
    views = {v: getattr(m, v) for v in set(VIEW_OF.values())}
    for name, kind in full.items():
        o = allobjs[name]
        if m.get(name) is not o:
            return f"get({name!r}) is not the last object stored under that name"
        if getattr(m, name) is not o:
            return f"attribute access .{name} is not the last object stored under that name"
        if m.namespace.get(name) is not o:
            return f"namespace[{name!r}] is not the last object stored under that name"
        for vk, vn in VIEW_OF.items():
            present = name in views[vn]
            if vk == kind:
                if not present or views[vn][name] is not o:
                    return f"{name!r} ({kind}) missing from the `{vn}` view"
            elif present:
                return f"{name!r} is a {kind} but is still listed in the `{vn}` view (stale entry)"
        if getattr(o, "name", None) != name:
            return f"object stored as {name!r} reports name {getattr(o, 'name', None)!r}"
        if getattr(o, "_parent_module", None) is not m:
            return f"object {name!r} does not report the module as its parent"
    for vn, view in views.items():
        for n in view:
            if n not in full:
                return f"view `{vn}` lists {n!r}, which the module does not hold"
    if set(m.namespace) != set(full):
        return f"namespace holds {sorted(m.namespace)}, expected {sorted(full)}"
    for n, o in m.ports.items():
        if o.vis != h.signal.Visibility.PORT:
            return f"`ports` lists {n!r}, which does not have port visibility"
    for n, o in m.signals.items():
        if o.vis == h.signal.Visibility.PORT:
            return f"`signals` lists {n!r}, which has port visibility"
    if m.get("nosuchname") is not None:
        return "get() of an absent name is not None"
    return None


def model_design(model):
    """The design the model state denotes (for the export comparison)."""
    decls = [("sig", "z", 1)]
    leaf = {"name": "Leaf", "style": "proc", "decls": [("port", "p", 1, "none"), ("inst", "r", ("prim", "R", {"r": 1}), [("p", sig("p")), ("n", sig("p"))])]}
    for name, kind in model.items():
        if kind == "sig":
            decls.append(("sig", name, 2))
        elif kind == "port":
            decls.append(("port", name, 2, "none"))
        elif kind == "inst":
            decls.append(("inst", name, ("mod", "Leaf"), [("p", sig("z"))]))
        elif kind == "array":
            decls.append(("array", name, ("mod", "Leaf"), 2, [("p", sig("z"))]))
        elif kind == "pair":
            decls.append(("pair", name, ("mod", "Leaf"), [("p", sig("z"))]))
        elif kind == "binst":
            decls.append(("binst", name, "BB"))
    top = {"name": "Subject", "style": "proc", "decls": decls}
    return {"bundles": {"BB": {"sigs": [("x", 1, "sig"), ("y", 2, "sig")], "subs": []}}, "exts": {}, "modules": {"Leaf": leaf, "Subject": top}, "top": "Subject"}


def expected_signals(model):
    out = {"z": 1}
    for name, kind in model.items():
        if kind in ("sig", "port"):
            out[name] = 2
        elif kind == "binst":
            out[name + "_x"] = 1
            out[name + "_y"] = 2
    return out


def _history(hist):
    """Replay one history on a fresh module; check after every op; export the final state. Returns (problem, step, model)."""
    import hdl21 as h

    m, env = fresh_module(h)
    model, objs = {}, {"z": env["z"]}
    for step, op in enumerate(hist):
        try:
            v = apply_op(h, m, env, op)
        except Exception as e:
            # add(v, name=n) of an object that already has a name is documented to be refused; the module must be left as it was
            if not (op[1] == "same" and op[2] == "add_name_arg"):
                return ("op raised: " + short_exc(e), step, model)
            v = objs[op[0]]
        if op[1] == "flip":
            model[op[0]] = {"sig": "port", "port": "sig"}[model[op[0]]]
        if op[1] not in ("same", "flip"):
            model[op[0]] = DIRKINDS.get(op[1], op[1])
            objs[op[0]] = v
        elif v is not objs[op[0]]:
            return ("re-storing an object returned another one", step, model)
        p = check_module(h, m, model, objs)
        if p:
            return (p, step, model)
    # rejected operations in this state
    p = rejected_ops(h, m, env)
    if p:
        return (p, len(hist), model)
    # names shadowed by the module's own attributes, tried on scratch replays of the same history

    def scratch():
        m2, env2 = fresh_module(h)
        for op in hist:
            if op[1] != "same":
                apply_op(h, m2, env2, op)
        return m2


    if len(hist) <= 2:
        p = shadow_probe(h, scratch)
        if p:
            return (p, len(hist), model)
    # export
    design = model_design(model)
    try:
        rdev, rpart = refsem.R(design)
        pkg = h.to_proto(m)
        odev, opart = observe.O_pkg(pkg, design)
    except Exception as e:
        return ("export of the edited module failed: " + short_exc(e), len(hist), model)
    # the elaborated module: the namespace is the disjoint union of the kind views, and get() agrees with it
    union = {}
    for vn in set(VIEW_OF.values()):
        for n, o in getattr(m, vn).items():
            if n in union:
                return (f"after elaboration {n!r} is listed in two views", len(hist), model)
            union[n] = o
    if set(union) != set(m.namespace) or any(m.namespace[n] is not o or m.get(n) is not o or getattr(m, n, None) is not o for n, o in union.items()):
        return (f"after elaboration the namespace holds {sorted(m.namespace)} but the views list {sorted(union)}", len(hist), model)
    if observe.devices_agree(rdev, odev) or opart != rpart:
        return ("exported package differs from the module's meaning", len(hist), model)
    top = [pm for pm in pkg.modules if pm.name.endswith("Subject")][0]
    got = {s.name: s.width for s in top.signals}
    if got != expected_signals(model) or len(top.signals) != len(got):
        return (f"exported signals {sorted(got.items())} != expected {sorted(expected_signals(model).items())}", len(hist), model)
    # additions after elaboration are refused - under a fresh name and when re-using a name - and leave the module as it is
    def views():
        return {vn: dict(getattr(m, vn)) for vn in list(set(VIEW_OF.values())) + ["namespace"]}

    before = views()
    bytes_before = pkg.SerializeToString(deterministic=True)
    attempts = [("late", "sig", "setattr")] + [(n, k, f) for n in list(m.namespace)[:3] for k in ("sig", "inst") for f in ("setattr", "add_name_arg")]
    for name, kind, form in attempts:
        try:
            apply_op(h, m, env, (name, kind, form))
            return (f"addition after elaboration accepted ({form} of a {kind} as {name!r})", len(hist), model)
        except Exception:
            pass
        if views() != before:
            return (f"a refused post-elaboration addition ({form} of a {kind} re-using {name!r}) still changed the module's views", len(hist), model)
    # ... nor does the refused re-use of an attribute the module already holds (under another name) rename it
    held = [(n, o) for n, o in m.namespace.items()][:2]
    for n, o in held:
        for form in ("setattr", "add_name_arg"):
            try:
                if form == "setattr":
                    setattr(m, "late2", o)
                else:
                    m.add(o, name="late2")
                return (f"storing a held attribute under a second name after elaboration accepted ({form})", len(hist), model)
            except Exception:
                pass
            if o.name != n or views() != before:
                return (f"a refused post-elaboration {form} of the attribute {n!r} under another name renamed it to {o.name!r}", len(hist), model)
    try:
        if h.to_proto(m).SerializeToString(deterministic=True) != bytes_before:
            return ("export changed after refused post-elaboration additions", len(hist), model)
    except Exception as e:
        return ("export fails after refused post-elaboration additions: " + short_exc(e), len(hist), model)
    return (None, len(hist), model)


def shadow_probe(h, mk, is_bundle=False):
    """Every name under which the object has a Python-level attribute, method or property (dir()), plus fresh underscore
    names: an HDL object stored under it by setattr / add(named) / add(name=) is either refused, leaving the namespace as it
    was, or it is the one object that get(), attribute access, the namespace and its kind view all return."""
    names = sorted({n for n in dir(mk()) if not n.startswith("__")} | {"_x", "_fresh_private"})
    for nm in names:
        for how in FORMS + ["class_body"]:
            o = mk()
            sgn = h.Signal()
            before = dict(o.namespace)
            try:
                if how == "class_body":
                    # the same name bound in a class-style definition
                    before = {}
                    o = (h.bundle if is_bundle else h.module)(type("Subject", (), {nm: sgn}))
                elif how == "setattr":
                    setattr(o, nm, sgn)
                elif how == "add_named":
                    sgn.name = nm
                    o.add(sgn)
                else:
                    o.add(sgn, name=nm)
            except Exception:
                if how != "class_body" and dict(o.namespace) != before:
                    return f"refused {how} under the name {nm!r} still changed the namespace"
                continue
            try:
                ga = getattr(o, nm)
            except Exception as e:
                ga = e
            if not (ga is sgn and o.get(nm) is sgn and o.namespace.get(nm) is sgn and o.signals.get(nm) is sgn):
                return f"{how} of a signal under the name {nm!r} accepted, but get() / attribute access / views do not all return it (attribute access gives {str(ga)[:40]!r})"
            # the name now denotes an HDL object: a non-HDL value must not take it over half-way
            try:
                setattr(o, nm, 5)
            except Exception:
                pass
            try:
                ga2 = getattr(o, nm)
            except Exception as e:
                ga2 = e
            if not (ga2 is o.get(nm) and (ga2 is sgn or o.get(nm) is None)):
                return f"after assigning a non-HDL value to the held name {nm!r}, attribute access gives {str(ga2)[:30]!r} but get() gives {str(o.get(nm))[:30]!r}"
    return None


def rejected_ops(h, m, env):
    for bn in BANNED_M:
        try:
            setattr(m, bn, h.Signal())
            return f"assignment to reserved name {bn!r} accepted"
        except Exception:
            pass
        for how in ("named", "arg"):
            before = dict(m.namespace)
            try:
                if how == "named":
                    m.add(h.Signal(name=bn))
                else:
                    m.add(h.Signal(), name=bn)
                return f"add() of a signal under reserved name {bn!r} accepted"
            except Exception:
                if dict(m.namespace) != before:
                    return f"rejected add() under reserved name {bn!r} still changed the namespace"
    for bad in (5, "str", None, env["leaf"], h.R, h.R(r=1)):
        try:
            m.q = bad
            return f"non-HDL value {bad!r} accepted by assignment"
        except Exception:
            pass
        try:
            m.add(bad, name="q")
            return f"non-HDL value {bad!r} accepted by add()"
        except Exception:
            pass
    try:
        m.add(h.Signal())
        return "anonymous signal accepted by add()"
    except Exception:
        pass
    try:
        m.add(h.Signal(name="n1"), name="n2")
        return "add() with two conflicting names accepted"
    except Exception:
        pass
    for how in ("named", "arg", "setattr"):
        before = dict(m.namespace)
        try:
            if how == "named":
                m.add(h.Signal(name=""))
            elif how == "arg":
                m.add(h.Signal(), name="")
            else:
                setattr(m, "", h.Signal())
            return f"the empty name accepted ({how})"
        except Exception:
            if dict(m.namespace) != before:
                return "a rejected addition under the empty name still changed the namespace"
    for n in list(m.namespace)[:2]:
        try:
            delattr(m, n)
            return "attribute deletion accepted"
        except Exception:
            pass
    try:
        type("Sub", (h.Module,), {})
        return "sub-classing Module accepted"
    except Exception:
        pass
    return None


def _class_vs_proc(seq):
    """A class-style definition equals the equivalent procedural one (same names, kinds, views, export)."""
    import hdl21 as h

    m1, env = fresh_module(h)
    ns = {"z": env["z"]}
    # class style: z first, then the sequence (later assignments to a name override earlier ones, as in a class body)
    for name, kind in seq:
        ns[name] = mk_value(h, env, kind)
    try:
        mc = h.module(type("Subject", (), dict(ns)))
    except Exception as e:
        return "class-style definition raised: " + short_exc(e)
    m2, env2 = fresh_module(h)
    final = {}
    for name, kind in seq:
        final[name] = kind
    for name, kind in final.items():
        setattr(m2, name, mk_value(h, env2, kind))

    def shape(m):
        return {vn: sorted(getattr(m, vn)) for vn in set(VIEW_OF.values())}

    if shape(mc) != shape(m2):
        return f"class-style views {shape(mc)} != procedural {shape(m2)}"
    # ... and when the values bound in the class body carry names of their own already (`data = h.Output(name="d")`, a copy of
    # another module's port): the key they are bound to is their name in the module, as with setattr
    m3, env3 = fresh_module(h)
    ns3 = {"z": env3["z"]}
    for k, (name, kind) in enumerate(seq):
        ns3[name] = mk_value(h, env3, kind)
        ns3[name].name = f"given_{k}"
    try:
        mc3 = h.module(type("Subject", (), dict(ns3)))
    except Exception as e:
        return "class-style definition with pre-named values raised: " + short_exc(e)
    if shape(mc3) != shape(m2):
        return f"class-style views with pre-named values {shape(mc3)} != procedural {shape(m2)}"
    for name in final:
        if mc3.get(name) is not ns3[name] or getattr(mc3, name, None) is not ns3[name] or ns3[name].name != name:
            return f"class-style definition with pre-named values: {name!r} is not (the name of) the object bound to that key"
    return None


# ---------------------------------------------------------------- bundles
def _bundle_history(hist):
    import hdl21 as h

    inner = h.Bundle(name="InnerB")
    inner.q = h.Signal()
    bd = h.Bundle(name="SubjectB")
    model, objs = {}, {}
    for step, (name, kind, form) in enumerate(hist):
        v = h.Signal(width=2) if kind == "sig" else h.Port(width=2) if kind == "port" else inner() if kind != "same" else objs[name]
        try:
            if form == "setattr":
                setattr(bd, name, v)
            elif form == "add_named":
                v.name = name
                bd.add(v)
            else:
                bd.add(v, name=name)
        except Exception as e:
            if not (kind == "same" and form == "add_name_arg"):
                return ("op raised: " + short_exc(e), step)
        if kind != "same":
            model[name] = kind
            objs[name] = v
        for n, k in model.items():
            o = objs[n]
            if bd.get(n) is not o or getattr(bd, n) is not o or bd.namespace.get(n) is not o:
                return (f"{n!r}: get / attribute / namespace disagree", step)
            in_s, in_b = n in bd.signals, n in bd.bundles
            if (k in ("sig", "port")) != in_s or (k == "binst") != in_b:
                return (f"{n!r} is a {k} but signals/bundles views say signals={in_s} bundles={in_b} (stale entry)", step)
            if o.name != n:
                return (f"object stored as {n!r} reports name {o.name!r}", step)
            if getattr(o, "_parent_bundle", None) is not bd:
                return (f"object {n!r} does not report the bundle as its parent", step)
        if set(bd.namespace) != set(model) or set(bd.signals) | set(bd.bundles) != set(model):
            return ("views hold names the bundle does not", step)
    for bn in BANNED_B:
        try:
            setattr(bd, bn, h.Signal())
            return (f"assignment to reserved name {bn!r} accepted", len(hist))
        except Exception:
            pass
        for how in ("named", "arg"):
            before = (dict(bd.namespace), dict(bd.signals), dict(bd.bundles))
            try:
                if how == "named":
                    bd.add(h.Signal(name=bn))
                else:
                    bd.add(h.Signal(), name=bn)
                return (f"add() under reserved name {bn!r} accepted", len(hist))
            except Exception:
                if (dict(bd.namespace), dict(bd.signals), dict(bd.bundles)) != before:
                    return (f"rejected add() under reserved name {bn!r} still changed the bundle", len(hist))
    if len(hist) <= 1:
        def scratch_b():
            b2 = h.Bundle(name="SubjectB")
            for (name, kind, form) in hist:
                if kind != "same":
                    setattr(b2, name, h.Signal(width=2) if kind == "sig" else h.Port(width=2) if kind == "port" else inner())
            return b2

        p = shadow_probe(h, scratch_b, True)
        if p:
            return (p, len(hist))
    for bad in (5, h.R(r=1), h.Module(name="X")):
        try:
            bd.q2 = bad
            return (f"non-HDL value {bad!r} accepted", len(hist))
        except Exception:
            pass
    try:
        type("SubB", (h.Bundle,), {})
        return ("sub-classing Bundle accepted", len(hist))
    except Exception:
        pass
    # attribute deletion: members, views and the name
    snapshot = (dict(bd.namespace), dict(bd.signals), dict(bd.bundles), bd.name)
    for target in list(bd.namespace)[:2] + ["signals", "bundles", "namespace", "name"]:
        try:
            delattr(bd, target)
            return (f"deletion of {target!r} from a Bundle accepted", len(hist))
        except Exception:
            pass
        try:
            if (dict(bd.namespace), dict(bd.signals), dict(bd.bundles), bd.name) != snapshot:
                return (f"refused deletion of {target!r} still changed the Bundle", len(hist))
        except Exception as e:
            return (f"after the refused deletion of {target!r} the Bundle is broken: {short_exc(e)}", len(hist))
    try:
        setattr(bd, "", h.Signal())
        return ("setattr of a bundle member under the empty name accepted", len(hist))
    except Exception:
        pass
    try:
        bd.add(h.Signal(name=""))
        return ("add() under the empty name accepted by a Bundle", len(hist))
    except Exception:
        pass
    # additions after elaboration (of a module that uses the bundle, as a port or internally; directly or nested in another
    # bundle) are refused and leave the bundle as it is
    use = (len(hist) + sum(len(n) + len(k) + len(f) for n, k, f in hist)) % 5
    user = h.Module(name="UserOfSubjectB")
    if use == 4 and not (model and all(k in ("sig", "port") for k in model.values())):
        use = 0
    if use == 4:  # as the bundle after whose members the instances of an instance-bundle type are named (cf. h.Pair / h.Diff)
        leafm = h.Module(name="LeafOfB")
        leafm.p = h.Port()
        user.x = h.Signal()
        user.tp = h.InstanceBundleType("SubjectBType", bundle=bd)(of=leafm)(p=user.x)
    elif use == 0:
        user.bb = bd(port=True)
    elif use == 1:
        user.bb = bd()
    elif use == 2:
        outer = h.Bundle(name="OuterB")
        outer.inner = bd()
        user.bb = outer()
    else:  # two levels down
        mid = h.Bundle(name="MidB")
        mid.leafb = bd()
        outer = h.Bundle(name="OuterB")
        outer.inner = mid()
        user.bb = outer(port=True)
    try:
        h.elaborate(user)
    except Exception as e:
        return ("a module using the edited bundle cannot be elaborated: " + short_exc(e), len(hist))
    before = (dict(bd.namespace), dict(bd.signals), dict(bd.bundles))
    for form in FORMS:
        for nm in ("late", hist[0][0]):
            for kind in ("sig", "binst"):
                v = h.Signal() if kind == "sig" else inner()
                try:
                    if form == "setattr":
                        setattr(bd, nm, v)
                    elif form == "add_named":
                        v.name = nm
                        bd.add(v)
                    else:
                        bd.add(v, name=nm)
                    return (f"addition to a bundle after elaboration accepted ({form} of a {kind} as {nm!r}, bundle used {['as a port', 'internally', 'nested', 'nested two levels down', 'by an instance-bundle type'][use]})", len(hist))
                except Exception:
                    pass
                if (dict(bd.namespace), dict(bd.signals), dict(bd.bundles)) != before:
                    return ("a refused post-elaboration addition still changed the bundle", len(hist))
    return (None, len(hist))


def _alias_history(hist):
    """Histories in which one object is also stored under a second name (`m.b = m.a`) and names are taken over afterwards.
    Ops: (name, kind, form) as elsewhere, or (name, "alias", form): the object held under the *other* name is stored under
    `name` too.  Only what the statement says is demanded: get / attribute / namespace / the kind views agree on every held
    name, nothing else is listed, ports are the port-visible signals, and every held object reports the module as its parent."""
    import hdl21 as h

    m, env = fresh_module(h)
    objs = {"z": env["z"]}
    kinds = {"z": "sig"}
    for step, op in enumerate(hist):
        name, kind, form = op
        try:
            if kind == "alias":
                other = [n for n in NAMES if n != name][0]
                v = objs[other]
                if form == "setattr":
                    setattr(m, name, v)
                else:
                    v.name = name
                    m.add(v)
                kinds[name] = kinds[other]
            else:
                v = apply_op(h, m, env, op)
                kinds[name] = kind
            objs[name] = v
        except Exception as e:
            return ("op raised: " + short_exc(e), step)
        views = {vn: getattr(m, vn) for vn in set(VIEW_OF.values())}
        for n, o in objs.items():
            if m.get(n) is not o or getattr(m, n) is not o or m.namespace.get(n) is not o:
                return (f"get / attribute access / namespace disagree on {n!r}", step)
            for vk, vn in VIEW_OF.items():
                if (n in views[vn]) != (vk == kinds[n]) or (vk == kinds[n] and views[vn][n] is not o):
                    return (f"{n!r} ({kinds[n]}) and the `{vn}` view disagree", step)
            if getattr(o, "_parent_module", None) is not m:
                return (f"the object held as {n!r} does not report the module as its parent", step)
        if set(m.namespace) != set(objs) or any(set(view) - set(objs) for view in views.values()):
            return ("the namespace or a view lists a name the module does not hold", step)
    return (None, len(hist))


def alias_enabled(hist):
    held = set()
    for name, kind, form in hist:
        if kind == "alias" and not ({n for n in NAMES if n != name} <= held):
            return False
        held.add(name)
    return any(k == "alias" for _n, k, _f in hist)


def enabled(hist):
    """`same` needs the name to be held already."""
    held = {}
    for n, k, f in hist:
        if k == "same" and n not in held:
            return False
        if k == "flip":
            if held.get(n) not in ("sig", "port") or f == "add_name_arg":
                return False
            held[n] = {"sig": "port", "port": "sig"}[held[n]]
        elif k != "same":
            held[n] = DIRKINDS.get(k, k)
    return True


def run(ctx):
    ops = [(n, k, f) for n in NAMES for k in MKINDS + ["same", "flip"] for f in FORMS]
    # (1) BFS with state merging on the model state
    seen = {(): []}
    frontier = [((), [])]
    depth = 0
    transitions = 0
    maxdepth = 5
    while frontier and depth < maxdepth:
        items = []
        for key, hist in frontier:
            for op in ops:
                if enabled(hist + [op]):
                    items.append(hist + [op])
        res = ctx.pmap(_history, items, chunk=50)
        nxt = []
        for hist, (prob, step, model) in zip(items, res):
            transitions += 1
            ctx.count(transitions=len(hist) + 1, traces_validated_against_impl=1)
            ctx.outcome("bfs:" + (("state:" + repr(sorted(model.items()))) if prob is None else prob[:30]))
            if prob:
                report(ctx, "module", hist, prob, step)
                continue
            key = tuple(sorted(model.items()))
            if key not in seen:
                seen[key] = hist
                nxt.append((key, hist))
        frontier = nxt
        depth += 1
    ctx.count(states=len(seen))
    ctx.fam("module_bfs_merged", states=len(seen), transitions=transitions, depth_reached=depth)
    # (2) un-merged: all histories of length <= 2 (3 thorough)
    L = 2 if ctx.quick else 3
    ops2 = ops + [(n, k, f) for n in NAMES for k in DIRKINDS for f in FORMS]
    items = [list(c) for n in range(1, L + 1) for c in itertools.product(ops2, repeat=n) if enabled(c)]
    res = ctx.pmap(_history, items, chunk=100)
    for hist, (prob, step, model) in zip(items, res):
        ctx.count(states=1, transitions=len(hist) + 1, traces_validated_against_impl=1)
        if prob:
            report(ctx, "module", hist, prob, step)
    ctx.fam("module_histories_unmerged", histories=len(items), max_len=L)
    # (3) class style == procedural
    seqs = [list(c) for n in (1, 2, 3) for c in itertools.product([(nm, k) for nm in NAMES for k in MKINDS], repeat=n)] if not ctx.quick else \
           [list(c) for n in (1, 2) for c in itertools.product([(nm, k) for nm in NAMES for k in MKINDS], repeat=n)]
    # ... also with an underscore-prefixed name, which a class body may give to an HDL object like any other
    seqs += [list(c) for n in (1, 2) for c in itertools.product([(nm, k) for nm in ("a", "_p") for k in MKINDS], repeat=n) if any(x[0] == "_p" for x in c)]
    res = ctx.pmap(_class_vs_proc, seqs, chunk=50)
    for s, prob in zip(seqs, res):
        ctx.count(states=1, transitions=2, traces_validated_against_impl=1)
        if prob:
            ctx.violation(dict(subject="module", kind="class_vs_procedural", what=prob[:40]), dict(sequence=s), prob)
    ctx.fam("class_vs_procedural", sequences=len(seqs))
    # (4) bundles
    bops = [(n, k, f) for n in NAMES for k in BKINDS + ["same"] for f in FORMS]
    LB = 3 if ctx.quick else 4
    items = [list(c) for n in range(1, LB + 1) for c in itertools.product(bops, repeat=n) if enabled(c)]
    res = ctx.pmap(_bundle_history, items, chunk=200)
    for hist, (prob, step) in zip(items, res):
        ctx.count(states=1, transitions=len(hist), traces_validated_against_impl=1)
        ctx.outcome("bundle:" + ("ok" if prob is None else prob[:30]))
        if prob:
            report(ctx, "bundle", hist, prob, step)
    ctx.fam("bundle_histories", histories=len(items), max_len=LB)
    # (5) one object under two names
    aops = [(n, k, f) for n in NAMES for k in ("sig", "port", "inst", "alias") for f in ("setattr", "add_named")]
    LA = 4 if ctx.quick else 5
    items = [list(c) for n in range(2, LA + 1) for c in itertools.product(aops, repeat=n) if alias_enabled(c)]
    res = ctx.pmap(_alias_history, items, chunk=200)
    for hist, (prob, step) in zip(items, res):
        ctx.count(states=1, transitions=len(hist), traces_validated_against_impl=1)
        ctx.outcome("alias:" + ("ok" if prob is None else prob[:30]))
        if prob:
            report(ctx, "module_alias", hist, prob, step)
    ctx.fam("alias_histories", histories=len(items), max_len=LA)
    ctx.sample(dict(subject="module", history=[list(o) for o in items[-1]][:3]))
    ctx.sample(dict(subject="module", history=[["a", "sig", "setattr"], ["a", "inst", "setattr"]]))
    ctx.assume("histories that store one object under two names are explored separately and judged only on what the statement says (agreement of the views, parent); names and exports of such states are not judged",
               "state merging keys on the reference model's state, which equals the implementation's observable state in every non-violating state")


def report(ctx, subject, hist, prob, step):
    kinds = [op[1] for op in hist]
    what = prob.split("(")[0][:50] if "stale" not in prob else "stale per-kind entry"
    trans = ""
    if "stale" in prob and len(hist) >= 2:
        trans = "kind change"
    for bn in BANNED_M:
        if repr(bn) in prob:
            what = prob.replace(repr(bn), "<reserved>")[:60]
    ctx.violation(dict(subject=subject, what=what, transition=trans), dict(subject=subject, history=[list(o) for o in hist], failing_step=step), prob)


def replay(body):
    c = body["case"]
    if "sequence" in c:
        r = _class_vs_proc([tuple(x) for x in c["sequence"]])
    elif c["subject"] == "module_alias":
        r = _alias_history([tuple(x) for x in c["history"]])[0]
    elif c["subject"] == "module":
        r = _history([tuple(x) for x in c["history"]])[0]
    else:
        r = _bundle_history([tuple(x) for x in c["history"]])[0]
    print("replay:", r or "holds")
    return 1 if r else 0
