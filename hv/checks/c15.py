"""
C15 — PDK compilation swaps device targets and nothing else (E2 over the documented device tables x E1 placement x E3).

Golden tables (/verif/golden/*.json) are transcribed from the PDK readmes.  For every row of every table of every PDK,
the matching generic primitive (by model name, with the documented and with the wrong terminal count) - and for Mos every
one of the 2 x 6 x 7 (type, family, threshold) triples - is placed in a three-level hierarchy with shared sub-modules,
compiled, snapshotted before / after, exported and netlisted; sizes given / defaulted, multipliers, compile-twice,
compile-by-two-PDKs, equal parameters.  hdl21.pdk.compile by default / name / module with one or several PDKs registered
runs in fresh sub-processes.  Every logic cell of the Sky130 and GF180 libraries is instantiated and netlisted.
"""

import io, os, sys, json, itertools, subprocess, importlib
from fractions import Fraction
from ..core import short_exc, ROOT
from .. import wf as wfmod

PDKS = {"sample": "hdl21.pdk.sample_pdk", "sky130": "sky130_hdl21", "gf180": "gf180_hdl21", "asap7": "asap7_hdl21"}
TYPES = ["NMOS", "PMOS"]
FAMILIES = ["NONE", "CORE", "IO", "LP", "HP", "RF"]
VTHS = ["STD", "LOW", "HIGH", "ULTRA_LOW", "ULTRA_HIGH", "ZERO", "NATIVE"]
BAD_EXC = ("StopIteration", "IndexError", "AttributeError", "KeyError", "UnboundLocalError", "NameError", "AssertionError")


def golden(pdk):
    return json.load(open(ROOT / "golden" / f"{pdk}.json"))


def descriptive(e):
    return type(e).__name__ not in BAD_EXC and bool(str(e).strip())


def mk_prim(h, spec):
    """spec = (cls, kwargs) -> PrimitiveCall"""
    cls, kw = spec
    kw = dict(kw)
    for k in ("tp", "family", "vth"):
        if k in kw:
            enum = {"tp": h.MosType if cls == "Mos" else h.primitives.BipolarType, "family": h.MosFamily, "vth": h.MosVth}[k]
            kw[k] = enum[kw[k]]
    for k in ("w", "l"):
        if k in kw and isinstance(kw[k], (list, tuple)):
            kw[k] = h.Literal(kw[k][1])  # a size given as an expression of netlist parameters
        elif k in kw:
            kw[k] = Fraction(kw[k]).numerator / Fraction(kw[k]).denominator * h.prefix.µ if False else h.Prefixed(number=kw[k], prefix=h.prefix.Prefix.MICRO)
    prim = {"Mos": h.Mos, "Res2": h.PhysicalResistor, "Res3": h.ThreeTerminalResistor, "Cap2": h.PhysicalCapacitor, "Cap3": h.ThreeTerminalCapacitor,
            "Diode": h.Diode, "Bipolar": h.primitives.Bipolar}[cls]
    return prim(**kw)


def hierarchy(h, spec):
    """Top > Mid (x2, shared) > leaf; plus the leaf directly in Top and an ideal resistor that must stay untouched."""
    call = mk_prim(h, spec)
    ports = list(call.ports)
    mid = h.Module(name="Mid")
    sigs = {p: mid.add(h.Port(name="p_" + p)) for p in ports}
    mid.x = call(**{p: sigs[p] for p in ports})
    mid.keep = h.R(r=1)(p=sigs[ports[0]], n=sigs[ports[-1]])
    top = h.Module(name="Top")
    nets = {p: top.add(h.Signal(name="n_" + p)) for p in ports}
    top.m0 = mid(**{"p_" + p: nets[p] for p in ports})
    top.m1 = mid(**{"p_" + p: nets[p] for p in ports})
    top.d = mk_prim(h, spec)(**{p: nets[p] for p in ports})  # an equal, separately created call
    if spec[0] == "Mos":
        kw2 = dict(spec[1])
        kw2["mult"] = kw2.get("mult", 1) + 4  # same device, same size, another multiplier - in the same compile
        top.d2 = mk_prim(h, (spec[0], kw2))(**{p: nets[p] for p in ports})
    top.keep = h.R(r=2)(p=nets[ports[0]], n=nets[ports[-1]])
    return top, mid


def snapshot(mods):
    return {m.name: [(n, i.of if not hasattr(i.of, "prim") else None, {p: id(c) for p, c in i.conns.items()}) for n, i in m.instances.items()] for m in mods}


def expect_for(pdk, spec, g):
    """Expected outcome of compiling `spec` with `pdk`: ("device", {acceptable names}) | ("error",) | ("either", names)."""
    cls, kw = spec
    if cls == "Mos":
        rows = g.get("mos", [])
        if kw.get("model"):
            r = [x for x in rows if x["key"] == kw["model"]]
            if not r:
                return ("error",)
            return ("device", {r[0]["name"]}) if r[0]["terminals"] == 4 else ("error",)
        tp, fam, vth = kw.get("tp", "NMOS"), kw.get("family", "NONE"), kw.get("vth", "STD")
        if pdk == "sample":
            return ("device", {"nmos" if tp == "NMOS" else "pmos"})
        if pdk == "asap7":
            r = [x for x in rows if x["tp"] == tp and x.get("vth") == vth]
            return ("device", {r[0]["name"]}) if r else ("error",)
        if pdk == "gf180":
            r = [x for x in rows if x["tp"] == tp and x["family"] == fam]
            if not r:
                return ("error",)
            if vth != "STD" or len(r) > 1:
                return ("either", {x["name"] for x in r})  # threshold undocumented for GF180 / ambiguous family NONE
            return ("device", {r[0]["name"]})
        r = [x for x in rows if x["tp"] == tp and x["family"] == fam and x["vth"] == vth]
        if not r:
            return ("error",)
        four = [x for x in r if x["terminals"] == 4]
        if len(r) > 1:
            return ("either", {x["name"] for x in four})  # several documented rows match: first one, or an ambiguity error
        return ("device", {r[0]["name"]}) if four else ("error",)
    table = {"Res2": "res", "Res3": "res", "Cap2": "cap", "Cap3": "cap", "Diode": "diode", "Bipolar": "bjt"}[cls]
    nterm = {"Res2": 2, "Res3": 3, "Cap2": 2, "Cap3": 3, "Diode": 2, "Bipolar": 3}[cls]
    r = [x for x in g.get(table, []) if x["key"] == kw.get("model")]
    if not r or (table == "cap" and r[0].get("kind", "").startswith("VPP")):
        return ("error",)
    if r[0]["terminals"] != nterm:
        return ("error",)
    if cls == "Bipolar" and kw.get("tp") and r[0].get("tp") and kw["tp"] != r[0]["tp"]:
        return ("either", {r[0]["name"]})
    return ("device", {r[0]["name"]})


def _one(item):
    import hdl21 as h

    pdk, spec, mode = item
    g = golden(pdk)
    try:
        mod = importlib.import_module(PDKS[pdk])
        top, mid = hierarchy(h, spec)
        h.elaborate(top)
    except Exception as e:
        return ("harness", short_exc(e))
    before = snapshot([top, mid])
    exp = expect_for(pdk, spec, g)
    try:
        if mode == "list":
            first, _m = hierarchy(h, spec)
            last, _m = hierarchy(h, spec)
            mod.compile([first, top, last])
            for which, t in (("first", first), ("last", last)):
                left = [n for n, i in t.instances.items() if n in ("d", "d2") and hasattr(i.of, "prim")]
                if left and exp[0] == "device":
                    return ("bad", f"compile of a list of designs left {left} of the {which} design un-compiled")
        else:
            mod.compile(top)
    except Exception as e:
        half_sized_diode = spec[0] == "Diode" and (("w" in spec[1]) != ("l" in spec[1]))  # area needs both: refusing is a fair answer
        if exp[0] in ("error", "either") or half_sized_diode:
            # a request that was refused is refused again when it is made a second time in the same process
            try:
                again, _m = hierarchy(h, spec)
                mod.compile(again)
                left = [n for n, i in again.instances.items() if n in ("d", "d2") and not hasattr(i.of, "prim")]
                if left:
                    return ("bad", f"a request refused a moment ago ({type(e).__name__}) is accepted when made again in the same process: {str(again.instances[left[0]].of)[:80]}")
            except Exception:
                pass
            if descriptive(e):
                return ("ok", "error")
            return ("bad", f"no device satisfies the request, but the error is not descriptive: {type(e).__name__}: {str(e)[:80]!r}")
        return ("bad", f"compile raised for a documented device: {short_exc(e)[:160]}")
    after = snapshot([top, mid])
    # hierarchy, names and connections untouched
    for mn in before:
        if [x[0] for x in before[mn]] != [x[0] for x in after[mn]]:
            return ("bad", f"instances of {mn} changed: {[x[0] for x in after[mn]]}")
        for (n, of0, c0), (_n, of1, c1) in zip(before[mn], after[mn]):
            if c0 != c1:
                return ("bad", f"connections of {mn}.{n} changed by compile")
            if of0 is not None and of1 is not of0:
                return ("bad", f"compile changed the target of {mn}.{n}, which is not a technology-mapped primitive")
    insts = [mid.instances["x"], top.instances["d"]]
    mapped = [not hasattr(i.of, "prim") for i in insts]
    if cls_mapped(pdk, spec):
        if not all(mapped):
            return ("bad", "a technology-mapped primitive was left in place") if exp[0] == "device" else ("ok", "left")
    else:
        return ("ok", "not mapped by this pdk") if not any(mapped) else ("bad", "a primitive this PDK does not document was replaced")
    if exp[0] == "error":
        if set(insts[0].of.ports) != set(insts[0].conns):
            return ("bad", f"terminal-count mismatch compiled: device {insts[0].of.module.name} has ports {sorted(insts[0].of.ports)} but the instance connects {sorted(insts[0].conns)}")
        return ("bad", f"no documented device satisfies the request, yet compile produced {insts[0].of.module.name}")
    names = {i.of.module.name for i in insts}
    if not names <= exp[1]:
        return ("bad", f"compiled to {sorted(names)}, documented: {sorted(exp[1])}")
    # valid: every device port connected exactly once
    for i in insts:
        if set(i.of.ports) != set(i.conns):
            return ("bad", f"device {i.of.module.name} has ports {sorted(i.of.ports)} but connections {sorted(i.conns)}")
    if insts[0].of != insts[1].of:
        return ("bad", "equal primitive parameters gave different device calls")
    # sizes / multipliers
    r = check_params(pdk, spec, insts[0].of)
    if r:
        return ("bad", r)
    if spec[0] == "Mos" and "d2" in top.instances and not hasattr(top.instances["d2"].of, "prim"):
        kw2 = dict(spec[1])
        kw2["mult"] = kw2.get("mult", 1) + 4
        r = check_params(pdk, (spec[0], kw2), top.instances["d2"].of)
        if r:
            return ("bad", "second transistor differing only in its multiplier: " + r)
    # a given size must reach the device: the same request with another value gives another device call
    if spec[0] in ("Res2", "Res3", "Cap2", "Cap3", "Diode"):
        pcall = insts[0].of.params
        fields = set(pcall) if isinstance(pcall, dict) else set(getattr(type(pcall), "__params__", {}))
        for dim in ("w", "l"):
            # a device without any width-like parameter has a fixed width (documented for the Sky130 precision resistors)
            if dim == "w" and not any(f.lower() in ("w", "width", "r_width", "c_width") or "wid" in f.lower() or f.lower().endswith("w") for f in fields):
                continue
            if dim in spec[1] and not isinstance(spec[1][dim], (list, tuple)):
                try:
                    other = dict(spec[1])
                    other[dim] = str(float(Fraction(spec[1][dim]) + Fraction(5, 4)))
                    t2, m2 = hierarchy(h, (spec[0], other))
                    mod.compile(t2)
                except Exception as e:
                    return ("bad", f"the same device with another {dim} could not be compiled: " + short_exc(e)[:100])
                if m2.instances["x"].of.params == insts[0].of.params:
                    return ("bad", f"given {dim}={spec[1][dim]}u does not reach the device: {dim}={other[dim]}u compiles to the very same device call {str(insts[0].of.params)[:80]}")
    # a diode is sized by area and perimeter: w x l and l x w are the same diode
    if spec[0] == "Diode" and "w" in spec[1] and "l" in spec[1]:
        try:
            other = dict(spec[1], w=spec[1]["l"], l=spec[1]["w"])
            t2, m2 = hierarchy(h, (spec[0], other))
            mod.compile(t2)
        except Exception as e:
            return ("bad", "the same diode with w and l swapped could not be compiled: " + short_exc(e)[:100])
        if m2.instances["x"].of.params != insts[0].of.params:
            return ("bad", f"diode w={spec[1]['w']}u l={spec[1]['l']}u compiles to {str(insts[0].of.params)[:70]}, but with w and l swapped to {str(m2.instances['x'].of.params)[:70]}")
    # ... and so must a given multiplier
    if spec[0] in ("Cap2", "Cap3", "Bipolar") and "mult" in spec[1]:
        try:
            other = dict(spec[1])
            other["mult"] = type(spec[1]["mult"])(int(spec[1]["mult"]) + 4)
            t2, m2 = hierarchy(h, (spec[0], other))
            mod.compile(t2)
        except Exception as e:
            return ("bad", "the same device with another multiplier could not be compiled: " + short_exc(e)[:100])
        if m2.instances["x"].of.params == insts[0].of.params:
            return ("bad", f"given multiplier {spec[1]['mult']!r} does not reach the device: {other['mult']!r} compiles to the very same device call {str(insts[0].of.params)[:80]}")
    # a size given alone: the other dimension must be the one a fully defaulted device gets
    if spec[0] in ("Mos", "Res2", "Res3", "Cap2", "Cap3") and (("w" in spec[1]) != ("l" in spec[1])):
        try:
            bare = {k: v for k, v in spec[1].items() if k not in ("w", "l")}
            t2, m2 = hierarchy(h, (spec[0], bare))
            mod.compile(t2)
            other = "l" if "w" in spec[1] else "w"
            pa, pb = insts[0].of.params, m2.instances["x"].of.params
            ga = pa.get(other) if isinstance(pa, dict) else getattr(pa, other, None)
            gb = pb.get(other) if isinstance(pb, dict) else getattr(pb, other, None)
            if ga != gb:
                return ("bad", f"only {('w' if other == 'l' else 'l')} given: defaulted {other} is {ga!r}, but a fully defaulted device gets {gb!r}")
            given = "w" if other == "l" else "l"
        except Exception as e:
            return ("bad", "fully defaulted twin could not be compiled: " + short_exc(e)[:100])
    # export + netlists
    try:
        pkg = h.to_proto(top)
        probs = wfmod.wf(pkg)
        if probs:
            return ("bad", "compiled design exports an ill-formed package: " + probs[0])
        for fmt in ("spice", "spectre"):
            h.netlist(pkg, io.StringIO(), fmt=fmt)
    except Exception as e:
        return ("bad", "compiled design cannot be exported / netlisted: " + short_exc(e)[:160])
    b1 = pkg.SerializeToString(deterministic=True)
    # compile twice == once; compile by a second PDK changes nothing
    try:
        mod.compile(top)
        if mode == "two_pdks":
            other = importlib.import_module(PDKS["sample" if pdk != "sample" else "sky130"])
            other.compile(top)
        b2 = h.to_proto(top).SerializeToString(deterministic=True)
    except Exception as e:
        return ("bad", "second compile raised: " + short_exc(e)[:120])
    if b1 != b2:
        return ("bad", "compiling again changed the design")
    return ("ok", "device")


def cls_mapped(pdk, spec):
    cls = spec[0]
    if pdk in ("sample", "asap7"):
        return cls == "Mos"
    return True


def check_params(pdk, spec, call):
    """Given sizes / multipliers must reach the device; defaulted ones must be set to something."""
    import hdl21 as h

    cls, kw = spec
    p = call.params
    get = (lambda k: p.get(k)) if isinstance(p, dict) else (lambda k: getattr(p, k, None))
    # sizes given as expressions: the device gets an expression worth the same, or 1e6 times it (metres -> microns)
    for k in ("w", "l"):
        if isinstance(kw.get(k), (list, tuple)):
            long = "width" if k == "w" else "length"
            v = next((get(f) for f in (k, "r_" + long, "c_" + long) if get(f) is not None), None)
            if v is None:
                continue  # the device has no such parameter (fixed width)
            if not isinstance(v, h.Literal):
                return f"given {k}={kw[k][1]!r} reached the device as {v!r}"
            env = dict(wbase=1e-6, dw=2e-6, __builtins__={})
            try:
                got, want = eval(v.text, dict(env)), eval(kw[k][1], dict(env))
            except Exception as e:
                return f"given {k}={kw[k][1]!r} reached the device as {v!r}"
            if not any(abs(got - want * f) <= 1e-9 * abs(want * f) for f in (1, 1e6)):
                return f"given {k}={kw[k][1]!r} reached the device as {v.text!r}, worth {got:g} instead of {want:g} (or {want * 1e6:g})"
    if cls == "Mos":
        for k in ("w", "l"):
            v = get(k)
            if isinstance(kw.get(k), (list, tuple)):
                continue
            if k in kw:
                want = Fraction(kw[k]) / 10**6
                if v is None or not isinstance(v, h.Prefixed) or Fraction(v.number) * Fraction(10) ** v.prefix.value != want:
                    return f"given {k}={kw[k]}u reached the device as {v!r}"
            elif v is None and pdk != "asap7":
                return f"defaulted {k} not set on the device"
        def val(v):
            return Fraction(v.number) * Fraction(10) ** v.prefix.value if isinstance(v, h.Prefixed) else v

        if "mult" in kw:
            got = [val(get(k)) for k in ("mult", "m") if get(k) is not None]
            if kw["mult"] not in got:
                return f"multiplier {kw['mult']} reached the device as {got!r}"
        if "nf" in kw and (isinstance(p, dict) or hasattr(p, "nf")):
            v = get("nf")
            if v is None or val(v) != kw["nf"]:
                return f"nf {kw['nf']} reached the device as {v!r}"
    if pdk == "sky130" and cls in ("Res2", "Res3") and "_PREC_" in kw.get("model", "") and "l" in kw and not isinstance(kw["l"], (list, tuple)):
        # documented: precision resistors have a fixed width and take their length in microns
        v = get("l")
        got = Fraction(v.number) * Fraction(10) ** v.prefix.value if isinstance(v, h.Prefixed) else v
        if got != Fraction(kw["l"]):
            return f"precision resistor: given l={kw['l']}u reached the device as {v!r} (documented unit: microns)"
    return None


def items_for(tier):
    out = []
    for pdk in PDKS:
        g = golden(pdk)
        # by model name, right and wrong terminal counts, sizes given / defaulted, multipliers
        for r in g.get("mos", []):
            for extra in ({}, {"w": "2.5", "l": "0.5"}, {"mult": 3}, {"nf": 2, "w": "4"}, {"w": "2.5"}, {"l": "0.75"}):
                if pdk in ("sample", "asap7") :
                    kw = {"tp": r["tp"]}
                    if r.get("vth"):
                        kw["vth"] = r["vth"]
                    elif pdk == "asap7":
                        continue
                else:
                    kw = {"model": r["key"]}
                kw.update(extra)
                out.append((pdk, ("Mos", kw), "once"))
        for table, classes in (("res", ("Res2", "Res3")), ("cap", ("Cap2", "Cap3")), ("diode", ("Diode",)), ("bjt", ("Bipolar",))):
            for r in g.get(table, []):
                for cls in classes:
                    kw = {"model": r["key"]}
                    if cls == "Bipolar":
                        kw["tp"] = r["tp"]
                    out.append((pdk, (cls, kw), "once"))
                    if cls in ("Res2", "Res3", "Cap2", "Cap3", "Diode") and r["terminals"] == {"Res2": 2, "Res3": 3, "Cap2": 2, "Cap3": 3, "Diode": 2}[cls]:
                        out.append((pdk, (cls, dict(kw, w="3", l="1.5")), "two_pdks"))
                        out.append((pdk, (cls, dict(kw, w="3")), "once"))
                        out.append((pdk, (cls, dict(kw, l="1.5")), "once"))
                        if cls in ("Cap2", "Cap3"):
                            out.append((pdk, (cls, dict(kw, mult="3")), "once"))
                    if cls == "Bipolar":
                        out.append((pdk, (cls, dict(kw, mult=3)), "once"))
        # sizes given as Literal expressions (Sky130 and GF180 document the scaling of sizes to microns)
        if pdk in ("sky130", "gf180"):
            for r in g.get("mos", [])[:3]:
                if r["terminals"] == 4:
                    out.append((pdk, ("Mos", {"model": r["key"], "w": ("lit", "wbase + dw"), "l": ("lit", "wbase")}), "once"))
            for table, cls in (("res", "Res2"), ("res", "Res3"), ("cap", "Cap2"), ("cap", "Cap3")):
                for r in g.get(table, []):
                    if r["terminals"] == {"Res2": 2, "Res3": 3, "Cap2": 2, "Cap3": 3}[cls]:
                        out.append((pdk, (cls, {"model": r["key"], "w": ("lit", "wbase + dw"), "l": ("lit", "dw - wbase")}), "once"))
        # unknown model names
        if pdk in ("sky130", "gf180"):  # the PDKs that document selection by model name
            for cls in ("Mos", "Res2", "Cap3", "Diode", "Bipolar"):
                out.append((pdk, (cls, {"model": "NO_SUCH_DEVICE"}), "once"))
            # ... and names no device has that are fragments of documented ones
            for table, cls in (("mos", "Mos"), ("res", "Res2"), ("res", "Res3"), ("cap", "Cap2"), ("cap", "Cap3"), ("diode", "Diode"), ("bjt", "Bipolar")):
                keys = {r["key"] for r in g.get(table, [])}
                frags = set()
                for k in sorted(keys):
                    frags |= {k[1:], k[:-1], k.split("_", 1)[-1], k.rsplit("_", 1)[0], k.lower() if k.lower() != k else k.upper()}
                for f in sorted(frags - keys - {""}):
                    out.append((pdk, (cls, {"model": f}), "once"))
        # a list of designs: every one is compiled
        for r in g.get("mos", [])[:4]:
            kw = {"tp": r["tp"]} if pdk in ("sample", "asap7") else {"model": r["key"]}
            if pdk == "asap7":
                kw["vth"] = r.get("vth") or "STD"
            out.append((pdk, ("Mos", kw), "list"))
        # all (type, family, threshold) triples
        for tp, fam, vth in itertools.product(TYPES, FAMILIES, VTHS):
            out.append((pdk, ("Mos", {"tp": tp, "family": fam, "vth": vth}), "once"))
            if tier != "quick":
                out.append((pdk, ("Mos", {"tp": tp, "family": fam, "vth": vth, "w": "1", "mult": 2}), "two_pdks"))
    return out


REGISTRY = r"""
import sys, json
sys.path.insert(0, %r)
import hdl21 as h
scenario = %r
out = {}
def design():
    m = h.Module(name="RegTop")
    m.a, m.b = h.Signals(2)
    m.x = h.Nmos(family=h.MosFamily.CORE)(d=m.a, g=m.b, s=m.a, b=m.a)
    return m
def mapped(m):
    return not hasattr(m.instances["x"].of, "prim")
def attempt(label, fn):
    m = design()
    try:
        fn(m)
        out[label] = "compiled" if mapped(m) else "untouched"
        out["device:" + label] = getattr(getattr(m.instances["x"].of, "module", None), "name", None)
    except Exception as e:
        out[label] = "raised " + type(e).__name__ + ": " + str(e)[:60].replace("\n", " ")
import hdl21.pdk.sample_pdk as sample
if scenario == "grow":
    attempt("default_with_one", lambda m: h.pdk.compile(m))
    import sky130_hdl21
    attempt("default_after_second_registered", lambda m: h.pdk.compile(m))
    out["default_is_none"] = h.pdk.default() is None if hasattr(h.pdk, "default") else "n/a"
elif isinstance(scenario, list):
    # one PDK registered; the four ways of naming it, in the given order: every call must compile, whatever came before
    ways = {"default": lambda m: h.pdk.compile(m), "by_name": lambda m: h.pdk.compile(m, pdk="hdl21.pdk.sample_pdk.pdk"),
            "by_module": lambda m: h.pdk.compile(m, pdk=sample.pdk), "by_package": lambda m: h.pdk.compile(m, pdk=sample)}
    for k, w in enumerate(scenario):
        attempt(f"{k}:{w}", ways[w])
elif scenario == "one":
    attempt("default", lambda m: h.pdk.compile(m))
    attempt("by_name", lambda m: h.pdk.compile(m, pdk="hdl21.pdk.sample_pdk.pdk"))
    attempt("by_module", lambda m: h.pdk.compile(m, pdk=sample.pdk))
    attempt("by_package", lambda m: h.pdk.compile(m, pdk=sample))
    attempt("bad_name", lambda m: h.pdk.compile(m, pdk="no_such_pdk"))
else:
    import sky130_hdl21, gf180_hdl21
    attempt("default_ambiguous", lambda m: h.pdk.compile(m))
    attempt("by_name", lambda m: h.pdk.compile(m, pdk="sky130_hdl21.pdk_logic"))
    attempt("by_module", lambda m: h.pdk.compile(m, pdk=gf180_hdl21.pdk_logic))
    attempt("by_package", lambda m: h.pdk.compile(m, pdk=sky130_hdl21))
    h.pdk.set_default(sample.pdk) if hasattr(h.pdk, "set_default") else None
    attempt("default_after_set_default", lambda m: h.pdk.compile(m))
    m = design(); h.pdk.compile(m)
    out["default_is_sample"] = getattr(m.instances["x"].of, "module", None) is not None and m.instances["x"].of.module.name
print(json.dumps(out, sort_keys=True))
"""


def registry_scenario(which):
    r = subprocess.run([sys.executable, "-W", "ignore", "-c", REGISTRY % (str(ROOT), which)], capture_output=True, text=True, env=dict(os.environ), timeout=300)
    last = r.stdout.strip().splitlines()[-1] if r.stdout.strip() else ""
    try:
        return json.loads(last)
    except Exception:
        return {"process": "failed: " + r.stderr[-300:]}


def _mixed(pdk):
    """A generic transistor compiled by model name next to the same device instantiated directly from the PDK's own
    primitives: one PDK device, named twice - the compiled design must export and netlist."""
    import hdl21 as h

    mod = importlib.import_module(PDKS[pdk])
    try:
        prims = importlib.import_module(PDKS[pdk] + ".primitives")
        g = golden(pdk)
        row = [r for r in g["mos"] if r["terminals"] == 4][0]
        direct = getattr(prims, row["key"])
        m = h.Module(name="MixedTop")
        m.a, m.b, m.c, m.d = h.Signals(4)
        m.x = h.Mos(model=row["key"])(d=m.a, g=m.b, s=m.c, b=m.d)
        m.y = direct(direct.paramtype())(**{p: s_ for p, s_ in zip(direct.ports if hasattr(direct, "ports") else [p.name for p in direct.port_list], (m.a, m.b, m.c, m.d))})
    except Exception as e:
        return ("harness", short_exc(e))
    try:
        mod.compile(m)
        pkg = h.to_proto(m)
        for fmt in ("spice", "spectre"):
            h.netlist(pkg, io.StringIO(), fmt=fmt)
    except Exception as e:
        return ("bad", "a design using one PDK device both through compile() and directly cannot be exported / netlisted: " + short_exc(e)[:140])
    if len(pkg.ext_modules) != 1:
        return ("bad", f"{len(pkg.ext_modules)} external modules declared for one PDK device")
    return ("ok", None)


def _cells(lib):
    """Every logic cell of one library module: instantiate with each port on its own net, export and netlist."""
    import hdl21 as h

    mod = importlib.import_module(lib)
    cells = [(n, v) for n, v in vars(mod).items() if isinstance(v, h.ExternalModule)]
    bad = []
    top = h.Module(name="Cells_" + lib.replace(".", "_"))
    k = 0
    for n, c in cells:
        conns = {}
        for p in c.port_list:
            k += 1
            conns[p.name] = top.add(h.Signal(name=f"net{k}", width=p.width))
        try:
            top.add(h.Instance(name="i_" + n, of=c())(**conns))
        except Exception as e:
            bad.append(f"{n}: {short_exc(e)[:100]}")
    try:
        pkg = h.to_proto(top)
        probs = wfmod.wf(pkg)
        if probs:
            bad.append("ill-formed package: " + probs[0])
        for fmt in ("spice", "spectre"):
            h.netlist(pkg, io.StringIO(), fmt=fmt)
    except Exception as e:
        bad.append("export/netlist: " + short_exc(e)[:160])
    return lib, len(cells), bad


def run(ctx):
    items = items_for(ctx.tier)
    res = ctx.pmap(_one, items, chunk=20)
    for it, (status, detail) in zip(items, res):
        ctx.count(states=1, transitions=4, traces_validated_against_impl=1)
        cls, kw = it[1]
        sel = "model" if "model" in kw else "triple"
        ctx.fam(f"{it[0]}:{cls}:{sel}", **{status: 1})
        ctx.outcome(f"{it[0]}:{status}:{str(detail)[:24]}")
        if status != "ok":
            exc = ""
            if "not descriptive" in str(detail):
                exc = str(detail).split("descriptive: ")[1].split(":")[0]
            what = "non-descriptive error" if exc else str(detail).split(":")[0][:60]
            if "terminal-count mismatch" in str(detail) or "has ports" in str(detail):
                what = "port-mismatched device instance"
            if "compiled to" in str(detail):
                what = "wrong device"
            ctx.violation(dict(pdk=it[0], prim=cls, select=sel, what=what, exc=exc, model=kw.get("model", "")), dict(item=[it[0], [cls, kw], it[2]]), detail)
    # registry scenarios, each in a fresh process
    want_one = {"default": "compiled", "by_name": "compiled", "by_module": "compiled", "by_package": "compiled"}
    r1 = registry_scenario("one")
    ctx.count(states=len(r1), transitions=len(r1), traces_validated_against_impl=len(r1))
    for k, w in want_one.items():
        if r1.get(k) != w or (w == "compiled" and r1.get("device:" + k) != "nmos"):
            ctx.violation(dict(model="", pdk="registry", prim="-", select="one:" + k, what=str(r1.get(k))[:40], exc=""), dict(registry="one", results=r1), f"hdl21.pdk.compile {k}: {r1.get(k)}")
    if not str(r1.get("bad_name", "")).startswith("raised") or any(b in r1.get("bad_name", "") for b in BAD_EXC) or "no_such_pdk" not in r1.get("bad_name", ""):  # descriptive: says which name it could not find
        ctx.violation(dict(model="", pdk="registry", prim="-", select="one:bad_name", what=str(r1.get("bad_name"))[:40], exc=""), dict(registry="one", results=r1), "unknown PDK name not rejected descriptively")
    # every order of the four ways of naming the one registered PDK (quick: every ordered pair)
    import itertools as _it

    ways = ["default", "by_name", "by_module", "by_package"]
    orders = [list(o) for o in (_it.permutations(ways, 2) if ctx.quick else _it.permutations(ways))]
    for order, ro in zip(orders, ctx.pmap(registry_scenario, orders, chunk=1)):
        ctx.count(states=1, transitions=len(order), traces_validated_against_impl=1)
        badk = [k for k in sorted(ro) if not k.startswith("device:") and ro[k] != "compiled"]
        badk += [k for k in sorted(ro) if k.startswith("device:") and ro[k] != "nmos"]
        if badk or len([k for k in ro if not k.startswith("device:")]) != len(order):
            ctx.violation(dict(model="", pdk="registry", prim="-", select="order:" + (badk[0] if badk else "?"), what=str(ro.get(badk[0]) if badk else ro)[:40], exc=""),
                          dict(registry=order, results=ro), f"with one PDK registered, hdl21.pdk.compile calls in the order {order} gave {ro}")
    ctx.fam("registry_orders", orders=len(orders))
    r2 = registry_scenario("several")
    ctx.count(states=len(r2), transitions=len(r2), traces_validated_against_impl=len(r2))
    if not str(r2.get("default_ambiguous", "")).startswith("raised RuntimeError"):
        ctx.violation(dict(model="", pdk="registry", prim="-", select="several:default", what=str(r2.get("default_ambiguous"))[:40], exc=""), dict(registry="several", results=r2), "ambiguous default not rejected descriptively")
    for k in ("by_name", "by_module", "by_package", "default_after_set_default"):
        if r2.get(k) != "compiled":
            ctx.violation(dict(model="", pdk="registry", prim="-", select="several:" + k, what=str(r2.get(k))[:40], exc=""), dict(registry="several", results=r2), f"hdl21.pdk.compile {k}: {r2.get(k)}")
    # ... and each call reached the PDK it named (golden device names of the CORE nmos)
    for k, want in (("by_name", "sky130_fd_pr__nfet_01v8"), ("by_module", "nfet_03v3"), ("by_package", "sky130_fd_pr__nfet_01v8"), ("default_after_set_default", "nmos")):
        if r2.get("device:" + k) != want:
            ctx.violation(dict(model="", pdk="registry", prim="-", select="several:device:" + k, what=str(r2.get("device:" + k))[:40], exc=""), dict(registry="several", results=r2),
                          f"with several PDKs registered, hdl21.pdk.compile {k} produced device {r2.get('device:' + k)!r}, the PDK asked for documents {want!r}")
    r3 = registry_scenario("grow")
    ctx.count(states=len(r3), transitions=len(r3), traces_validated_against_impl=len(r3))
    if r3.get("default_with_one") != "compiled" or not str(r3.get("default_after_second_registered", "")).startswith("raised RuntimeError"):
        ctx.violation(dict(model="", pdk="registry", prim="-", select="grow", what=str(r3.get("default_after_second_registered"))[:40], exc=""), dict(registry="grow", results=r3),
                      "after a second PDK is registered, compile() without a PDK must report the ambiguity (not keep using the first): " + str(r3))
    ctx.fam("registry", scenarios=3)
    for pdk in ("sky130", "gf180"):
        status, detail = _mixed(pdk)
        ctx.count(states=1, transitions=3, traces_validated_against_impl=1)
        ctx.fam("compiled_next_to_direct", **{status: 1})
        if status != "ok":
            ctx.violation(dict(model="", pdk=pdk, prim="Mos", select="mixed", what=str(detail)[:40], exc=""), dict(mixed=pdk), detail)
    # logic cells
    libs = ["sky130_hdl21.digital_cells.high_density", "sky130_hdl21.digital_cells.high_speed", "sky130_hdl21.digital_cells.low_leakage", "sky130_hdl21.digital_cells.low_power",
            "sky130_hdl21.digital_cells.low_speed", "sky130_hdl21.digital_cells.medium_speed", "gf180_hdl21.digital_cells.seven_track", "gf180_hdl21.digital_cells.nine_track"]
    res = ctx.pmap(_cells, libs, chunk=1)
    for lib, n, bad in res:
        ctx.count(states=n, transitions=n, traces_validated_against_impl=n)
        ctx.fam("logic_cells", cells=n, libraries=1)
        if bad:
            ctx.violation(dict(model="", pdk=lib.split(".")[0], prim="logic", select="cells", what=bad[0][:40], exc=""), dict(library=lib), bad[:5])
    ctx.sample(dict(item=[items[0][0], list(items[0][1]), items[0][2]]))
    ctx.sample(dict(item=[items[len(items) // 2][0], list(items[len(items) // 2][1]), items[len(items) // 2][2]]))
    ctx.assume("golden tables transcribed from the PDK readmes; GF180 documents no threshold column, so non-standard thresholds and the ambiguous family NONE are judged 'any matching row or a descriptive error'",
               "a descriptive error = a non-empty message and not one of StopIteration / IndexError / AttributeError / KeyError / NameError")


def replay(body):
    c = body["case"]
    if "item" in c:
        it = c["item"]
        r = _one((it[0], (it[1][0], it[1][1]), it[2]))
    elif "mixed" in c:
        r = _mixed(c["mixed"])
    elif "registry" in c:
        r = ("info", registry_scenario(c["registry"]))
    else:
        r = _cells(c["library"])
    print("replay:", r)
    return 0 if r[0] == "ok" else 1
