"""
C19 — built-in generators build the documented topologies (engine E2: exhaustive over n, unit cells and series-port pairs).

Series(unit, conns=(A, B), nser=n) for n in 1..4 (8 thorough) x unit in {R, C, Vcvs, Mos, Npn, external 3-port, module with
scalar + bus ports, module with a bundle port} x every ordered pair of distinct scalar unit ports, given by name and by
Signal; MosStack(nser); Wrapper(unit) of each.  Oracle: the chain model built directly as a design description and run
through the reference semantics, compared with the leaf-level net partition of the exported package.
"""

import itertools
from .. import refsem, observe
from ..core import short_exc
from ..families.base import *
from ..families.f4_bundles import BUNDLES, bref

UNITS = {
    "R": dict(target=("prim", "R", {"r": 1}), ports=[("p", 1), ("n", 1)]),
    "C": dict(target=("prim", "C", {"c": 1}), ports=[("p", 1), ("n", 1)]),
    "Vcvs": dict(target=("prim", "Vcvs", {"gain": 2}), ports=[("p", 1), ("n", 1), ("cp", 1), ("cn", 1)]),
    "Mos": dict(target=("prim", "Mos", {}), ports=[("d", 1), ("g", 1), ("s", 1), ("b", 1)]),
    "Npn": dict(target=("prim", "Bipolar", {}), ports=[("c", 1), ("b", 1), ("e", 1)]),
    "Ext3": dict(target=("ext", "E3", {"k": 1}), ports=[("a", 1), ("b", 1), ("c", 1)]),
    "ExtNames": dict(target=("ext", "EN", {"k": 2}), ports=[("i", 1), ("units", 1), ("inner", 1), ("x", 1)]),  # ports named like the generators' own attributes
    "ExtElems": dict(target=("ext", "EE", {"k": 3}), ports=[("a", 1), ("units_0", 1), ("units_1", 1)]),  # ... and like the elements of the generated array
    "ModBus": dict(target=("mod", "UnitM"), ports=[("a", 1), ("b", 1), ("w", 2)]),
    "ModBundle": dict(target=("mod", "UnitB"), ports=[("a", 1), ("b", 1)], bports=[("t", "B1")]),
    # bundle-valued ports named like the generators' own attributes
    # a scalar port named like a flattened member of the bundle port next to it
    "ModBundleClash": dict(target=("mod", "UnitBC"), ports=[("a", 1), ("b", 1), ("t_x", 1)], bports=[("t", "B1")]),
    "ModBundleNames": dict(target=("mod", "UnitBN"), ports=[("a", 1), ("b", 1)], bports=[("i", "B1"), ("inner", "B1"), ("units", "B1")]),
}


def unit_modules():
    exts = {"E3": ext_leaf([("a", 1), ("b", 1), ("c", 1)]), "EN": ext_leaf([("i", 1), ("units", 1), ("inner", 1), ("x", 1)]), "EE": ext_leaf([("a", 1), ("units_0", 1), ("units_1", 1)]), "P1": ext_leaf([("a", 1)]), "P2": ext_leaf([("a", 2)])}
    um = {"name": "UnitM", "style": "class", "decls": [
        ("port", "a", 1, "none"), ("port", "b", 1, "none"), ("port", "w", 2, "none"),
        ("inst", "r", ("prim", "R", {"r": 5}), [("p", sig("a")), ("n", sig("b"))]),
        ("inst", "pw", ("ext", "P2", {"k": 2}), [("a", sig("w"))])]}
    ub = {"name": "UnitB", "style": "class", "decls": [
        ("port", "a", 1, "none"), ("port", "b", 1, "none"), ("bport", "t", "B1", False, None),
        ("inst", "r", ("prim", "R", {"r": 6}), [("p", sig("a")), ("n", sig("b"))]),
        ("inst", "px", ("ext", "P1", {"k": 3}), [("a", bref("t", "x"))]),
        ("inst", "py", ("ext", "P2", {"k": 4}), [("a", bref("t", "y"))])]}
    ubn = {"name": "UnitBN", "style": "class", "decls": [
        ("port", "a", 1, "none"), ("port", "b", 1, "none"), ("bport", "i", "B1", False, None), ("bport", "inner", "B1", False, None), ("bport", "units", "B1", False, None),
        ("inst", "r", ("prim", "R", {"r": 7}), [("p", sig("a")), ("n", sig("b"))]),
        ("inst", "pi", ("ext", "P1", {"k": 5}), [("a", bref("i", "x"))]), ("inst", "pn", ("ext", "P2", {"k": 6}), [("a", bref("inner", "y"))]),
        ("inst", "pu", ("ext", "P1", {"k": 7}), [("a", bref("units", "x"))])]}
    ubc = {"name": "UnitBC", "style": "class", "decls": [
        ("port", "a", 1, "none"), ("port", "b", 1, "none"), ("port", "t_x", 1, "none"), ("bport", "t", "B1", False, None),
        ("inst", "r", ("prim", "R", {"r": 8}), [("p", sig("a")), ("n", sig("b"))]),
        ("inst", "ps", ("ext", "P1", {"k": 8}), [("a", sig("t_x"))]),
        ("inst", "px", ("ext", "P1", {"k": 9}), [("a", bref("t", "x"))]),
        ("inst", "py", ("ext", "P2", {"k": 10}), [("a", bref("t", "y"))])]}
    return exts, {"UnitM": um, "UnitB": ub, "UnitBN": ubn, "UnitBC": ubc}


def expected_design(uname, A, B, n, wrapper=False):
    """The documented topology as a design description."""
    u = UNITS[uname]
    exts, mods = unit_modules()
    decls = [("port", p, w, "none") for p, w in u["ports"]]
    for bp, bn in u.get("bports", []):
        decls.append(("bport", bp, bn, False, None))
    if wrapper or n == 1:
        conns = [(p, sig(p)) for p, w in u["ports"]] + [(bp, ("b", bp)) for bp, bn in u.get("bports", [])]
        decls.append(("inst", "innerinst", u["target"], conns))
    else:
        decls.append(("sig", "ichain", n - 1))
        for k in range(n):
            conns = []
            for p, w in u["ports"]:
                if p == A:
                    e = sig(A) if k == 0 else (idx(sig("ichain"), k - 1) if n - 1 > 1 else sig("ichain"))
                elif p == B:
                    e = sig(B) if k == n - 1 else (idx(sig("ichain"), k) if n - 1 > 1 else sig("ichain"))
                else:
                    e = sig(p)
                conns.append((p, e))
            for bp, bn in u.get("bports", []):
                conns.append((bp, ("b", bp)))
            decls.append(("inst", f"uu_{k}", u["target"], conns))
    mods["Ser"] = {"name": "Ser", "style": "proc", "decls": decls}
    return {"bundles": BUNDLES, "exts": exts, "modules": mods, "top": "Ser"}


def real_unit(h, uname, built):
    from ..build import target_of

    u = UNITS[uname]
    return target_of(built["design"], u["target"], built["built"])


def _one(item):
    import hdl21 as h
    from hdl21.generators import Series, MosStack, Wrapper
    from ..build import build, Built, build_ext, build_module, build_bundle, target_of

    gen, uname, A, B, n, how = item
    pre_elab = how.endswith("+elab")  # the unit has been elaborated on its own before it is handed to the generator
    how = how.replace("+elab", "")
    u = UNITS[uname]
    exp = expected_design(uname, A, B, n, wrapper=(gen == "wrapper"))
    # the real unit
    try:
        h.generator.cache.reset()
        base = dict(exp)
        base["modules"] = {k: v for k, v in exp["modules"].items() if k != "Ser"}
        base["top"] = "UnitM"
        built = build(base)
        unit = target_of(base, u["target"], built)
        if pre_elab:
            h.elaborate(unit)
    except Exception as e:
        return ("harness", short_exc(e))
    widths = dict(u["ports"])
    must_raise = gen == "series" and n > 1 and (widths.get(A, 1) != 1 or widths.get(B, 1) != 1)
    try:
        if gen == "series":
            a_arg, b_arg = (A, B) if how == "name" else (unit.ports[A], unit.ports[B])
            m = Series(unit=unit, conns=(a_arg, b_arg), nser=n)
        elif gen == "mosstack":
            m = MosStack(unit=unit, nser=n)
        else:
            m = Wrapper(unit)
        pkg = h.to_proto(m)
    except Exception as e:
        if must_raise:
            return ("ok", "raised")
        return ("raised", short_exc(e))
    if must_raise:
        return ("bad", "series ports wider than one bit were accepted")
    return judge(pkg, exp, u, n, gen)


def judge(pkg, exp, u, n, gen):
    try:
        rdev, rpart = refsem.R(exp)
        odev, opart = observe.O_pkg(pkg, None)
    except Exception as e:
        return ("bad", "cannot read the exported package: " + short_exc(e))
    # ports of the generated module = the unit's ports (signal and bundle valued)
    top = pkg.modules[-1]
    import re as _re

    want_ports = {p: w for p, w in u["ports"]}
    got_sigs = {s.name: s.width for s in top.signals}
    got_ports = {p.signal: got_sigs.get(p.signal) for p in top.ports}
    ren = {}
    for bp, bn in u.get("bports", []):
        for mem, w in (("x", 1), ("y", 2)):
            # the flattened member's name: `<port>_<member>`, or a fresh variant of it when a scalar port has that name
            cands = [g for g in got_ports if _re.fullmatch(_re.escape(f"{bp}_{mem}") + "_*", g) and g not in dict(u["ports"])]
            name = cands[0] if len(cands) == 1 else f"{bp}_{mem}"
            want_ports[name] = w
            ren[f"{bp}.{mem}"] = name
    if got_ports != want_ports:
        return ("bad", f"ports {got_ports} != the unit's ports {want_ports}")
    # relabel the reference partition's flattened bundle-port labels to the package's names
    rpart = frozenset(frozenset((n_[0], ren.get(n_[1], n_[1]) if n_[0] == () else n_[1], n_[2]) for n_ in c) for c in rpart)
    # the generators may name their instances as they like (units_k / inner, or something else when a unit port has that
    # name): compare modulo the base name of the top-level instances
    import re as _re

    tops = sorted({p_[0] for p_ in odev})
    m_ = [_re.fullmatch(r"(.+?)_(\d+)_*", t) for t in tops]  # element k of the array, possibly with a collision-avoiding suffix
    ren_i = {}
    if n > 1 and gen != "wrapper" and all(m_) and len({x.group(1) for x in m_}) == 1:
        ren_i = {f"uu_{x.group(2)}": x.group(0) for x in m_}
    elif len(tops) == 1:
        ren_i = {"innerinst": tops[0]}

    def rp(path):
        return (ren_i.get(path[0], path[0]),) + tuple(path[1:]) if path else path

    rdev = {rp(p_): v for p_, v in rdev.items()}
    rpart = frozenset(frozenset((rp(n_[0]), n_[1], n_[2]) for n_ in c) for c in rpart)
    d = observe.devices_agree(rdev, odev)
    if d:
        return ("bad", d)
    if rpart != opart:
        return ("bad", "topology differs: " + str(observe.partition_diff(rpart, opart))[:300])
    return ("ok", None)


def _ext_twins(item):
    """Two different external cells that share name and domain (`res` of two libraries) and are given equal parameters, used
    as units one after the other in one process: each generated module is made of *its* unit and has its unit's ports."""
    import hdl21 as h
    from hdl21.generators import Series, Wrapper

    gen, n, order = item
    try:
        h.generator.cache.reset()
        libs = {
            "A": h.ExternalModule(name="res", port_list=[h.Port(name="p"), h.Port(name="n")], paramtype=dict, domain="lib"),
            "B": h.ExternalModule(name="res", port_list=[h.Port(name="p"), h.Port(name="n"), h.Port(name="sub")], paramtype=dict, domain="lib"),
        }
        made = {}
        for k in order:
            unit = libs[k](dict(r=1000))
            made[k] = Wrapper(unit) if gen == "wrapper" else Series(unit=unit, conns=("p", "n"), nser=n)
        for k, m in made.items():
            want = {"A": {"p", "n"}, "B": {"p", "n", "sub"}}[k]
            h.elaborate(m)
            if set(m.ports) != want:
                return ("bad", f"built from the `res` of library {k} (the {'first' if order[0] == k else 'second'} call): ports {sorted(m.ports)}, the unit has {sorted(want)}")
            others = [i.name for i in m.instances.values() if getattr(i.of, "module", None) is not libs[k]]
            if others or len(m.instances) != (1 if gen == "wrapper" else n):
                return ("bad", f"built from the `res` of library {k}: instances {others} are of another cell ({len(m.instances)} instances)")
    except Exception as e:
        return ("raised", short_exc(e))
    return ("ok", None)


def _port_attrs(item):
    """The generated module exposes the unit's ports as they are: width, direction, port visibility, usage (power / ground /
    clock / signal) and description of every port."""
    import hdl21 as h
    from hdl21.generators import Series, Wrapper

    gen, n = item
    try:
        h.generator.cache.reset()
        u = h.Module(name="UnitAttrs")
        u.a, u.b = h.Input(desc="series in"), h.Output(desc="series out")
        u.c = h.Inout(width=2)
        u.vdd, u.vss, u.clk = h.Power(), h.Ground(desc="return"), h.Clock(direction=h.PortDir.INPUT)
        u.r = h.R(r=1)(p=u.a, n=u.b)
        u.r2 = h.R(r=2)(p=u.c[0], n=u.c[1])
        u.r3 = h.R(r=3)(p=u.vdd, n=u.vss)
        u.r4 = h.R(r=4)(p=u.clk, n=u.vss)
        m = Wrapper(u) if gen == "wrapper" else Series(unit=u, conns=("a", "b"), nser=n)
        want = {nm: (p.width, p.direction, p.vis, p.usage, p.desc) for nm, p in u.ports.items()}
        got = {nm: (p.width, p.direction, p.vis, p.usage, p.desc) for nm, p in m.ports.items()}
        if got != want:
            diff = sorted(nm for nm in set(want) | set(got) if want.get(nm) != got.get(nm))
            return ("bad", f"port attributes differ from the unit's for {diff}: {[got.get(d) for d in diff][:2]} instead of {[want.get(d) for d in diff][:2]}")
        pkg = h.to_proto(m)
        import vlsir.circuit_pb2 as vckt

        dirs = {p.signal: vckt.Port.Direction.Name(p.direction) for p in pkg.modules[-1].ports}
        if dirs != {"a": "INPUT", "b": "OUTPUT", "c": "INOUT", "vdd": "NONE", "vss": "NONE", "clk": "INPUT"} and dirs != {nm: vckt.Port.Direction.Name(x.direction) for x in [p for mm in pkg.modules if mm.name.endswith("UnitAttrs") for p in mm.ports] for nm in [x.signal]}:
            return ("bad", f"exported port directions {dirs} differ from the unit's")
    except Exception as e:
        return ("raised", short_exc(e))
    return ("ok", None)


def _seq(item):
    """History: the generator is first run on another cell *of the same name* (or on the same cell, the result then being
    edited); the second result must be what it is without that history."""
    import hdl21 as h
    from hdl21.generators import Series, Wrapper
    from ..build import build, target_of

    gen, first, second, n = item
    h.generator.cache.reset()

    def unit_of(uname):
        exp = expected_design(uname, "a", "b", n, wrapper=(gen == "wrapper"))
        base = dict(exp)
        base["modules"] = {k: v for k, v in exp["modules"].items() if k != "Ser"}
        base["top"] = "UnitM"
        unit = target_of(base, UNITS[uname]["target"], build(base))
        unit.name = "Cell"
        return unit, exp

    def call(unit):
        return Wrapper(unit) if gen == "wrapper" else Series(unit=unit, conns=("a", "b"), nser=n)

    try:
        u1, _e = unit_of(first)
        m1 = call(u1)
        if first == second:
            m1.extra_port_added_later = h.Input()  # the documented use: a wrapper is a starting point for edits
            u2, exp = u1, _e
        else:
            u2, exp = unit_of(second)
        m2 = call(u2)
        pkg = h.to_proto(m2)
    except Exception as e:
        return ("raised", short_exc(e))
    return judge(pkg, exp, UNITS[second], n, gen)


def run(ctx):
    N = 4 if ctx.quick else 8
    items = []
    for uname, u in UNITS.items():
        scal = [p for p, w in u["ports"]]
        for A, B in itertools.permutations(scal, 2):
            for n in range(1, N + 1):
                for how in ("name", "signal"):
                    items.append(("series", uname, A, B, n, how))
        # beyond ten units, where `units_10` sorts before `units_2`
        for n in (11, 12) if ctx.quick else (10, 11, 12, 21):
            items.append(("series", uname, scal[0], scal[1], n, "name"))
            items.append(("series", uname, scal[1], scal[0], n, "signal"))
        items.append(("wrapper", uname, None, None, 1, "-"))
        if u["target"][0] == "mod":
            items.append(("wrapper", uname, None, None, 1, "-+elab"))
            for n in (1, 2, 3):
                items.append(("series", uname, scal[0], scal[1], n, "name+elab"))
    for n in range(1, N + 1):
        items.append(("mosstack", "Mos", "d", "s", n, "-"))
    for n in (11, 12, 21):
        items.append(("mosstack", "Mos", "d", "s", n, "-"))
    res = ctx.pmap(_one, items, chunk=10)
    for it, (status, detail) in zip(items, res):
        ctx.count(states=1, transitions=3, traces_validated_against_impl=1)
        ctx.fam(it[0] + ":" + it[1], **{status: 1})
        ctx.outcome(status + ":" + it[0] + ":" + str(detail)[:20])
        if status in ("bad", "raised", "harness"):
            wide = dict(UNITS[it[1]]["ports"]).get(it[2], 1) != 1 or dict(UNITS[it[1]]["ports"]).get(it[3], 1) != 1
            ctx.violation(dict(gen=it[0], unit=it[1], nser=("1" if it[4] == 1 else "n>1"), what=(detail.split(":")[0] if status != "bad" else detail.split(":")[0][:40]), wide=wide),
                          dict(item=list(it)), detail)
    sitems = [(g, a, b, n) for g, ns in (("wrapper", (1,)), ("series", (1, 2, 3))) for n in ns for a in ("ModBus", "ModBundle") for b in ("ModBus", "ModBundle")
              if g == "wrapper" or a != b]  # Series is a memoising generator: the same unit gives the same (shared) module
    for it in sitems:
        status, detail = _seq(it)
        ctx.count(states=1, transitions=4, traces_validated_against_impl=1)
        ctx.fam("after_same_named_cell:" + it[0], **{status: 1})
        ctx.outcome(status + ":seq:" + it[0] + ":" + str(detail)[:20])
        if status != "ok":
            ctx.violation(dict(gen=it[0], unit=it[2], nser=("1" if it[3] == 1 else "n>1"), what="after " + it[1] + ": " + str(detail).split(":")[0][:40], wide=False), dict(seq=list(it)), detail)
    for it in [(g, n, o) for g, ns in (("wrapper", (1,)), ("series", (1, 2, 3))) for n in ns for o in ("AB", "BA")]:
        status, detail = _ext_twins(it)
        ctx.count(states=1, transitions=4, traces_validated_against_impl=1)
        ctx.fam("same_named_external_units:" + it[0], **{status: 1})
        ctx.outcome(status + ":twins:" + it[0] + ":" + str(detail)[:20])
        if status != "ok":
            ctx.violation(dict(gen=it[0], unit="ext twins", nser=("1" if it[1] == 1 else "n>1"), what="same-named external units: " + str(detail).split(":")[0][:40], wide=False), dict(twins=list(it)), detail)
    for it in [("wrapper", 1), ("series", 1), ("series", 2), ("series", 3)]:
        status, detail = _port_attrs(it)
        ctx.count(states=1, transitions=2, traces_validated_against_impl=1)
        ctx.fam("port_attributes:" + it[0], **{status: 1})
        ctx.outcome(status + ":attrs:" + it[0] + ":" + str(detail)[:20])
        if status != "ok":
            ctx.violation(dict(gen=it[0], unit="UnitAttrs", nser=("1" if it[1] == 1 else "n>1"), what="port attributes: " + str(detail).split(":")[0][:40], wide=False), dict(attrs=list(it)), detail)
    ctx.sample(dict(item=list(items[5]), expected=expected_design(items[5][1], items[5][2], items[5][3], items[5][4])))
    ctx.sample(dict(item=list(items[-1])))
    ctx.assume("the chain model is written directly as a design description; array elements are named units_k as documented")


def replay(body):
    if "twins" in body["case"]:
        r = _ext_twins(tuple(body["case"]["twins"]))
    elif "attrs" in body["case"]:
        r = _port_attrs(tuple(body["case"]["attrs"]))
    elif "seq" in body["case"]:
        r = _seq(tuple(body["case"]["seq"]))
    else:
        r = _one(tuple(body["case"]["item"]))
    print("replay:", r)
    return 0 if r[0] == "ok" else 1
