"""./run SELFTEST — offline environment self-test used as MANIFEST.setup_cmd (builds nothing, fetches nothing)."""


def selftest():
    import hdl21, vlsir, vlsirtools, os
    assert os.path.realpath(hdl21.__file__).startswith("/repo/"), hdl21.__file__
    import sky130_hdl21, gf180_hdl21, asap7_hdl21  # noqa: from /repo/pdks/* via PYTHONPATH
    from .. import harness
    from ..families import f1_expr
    fam, design = f1_expr.design(f1_expr.items("quick")[5])
    assert harness.check_valid(design) is None
    print("SELFTEST ok: hdl21", hdl21.__version__, "from", os.path.dirname(hdl21.__file__))
    return 0
