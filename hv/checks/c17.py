"""
C17 — simulation input export is complete and faithful (engine E2: exhaustive over attribute types x spellings x styles).

A Sim is described as plain data (a list of attribute specs), built three ways (constructor list, add / add-methods,
@sim class) and exported alone and in lists; a reference translator maps the same description to the expected SimInput
fields, compared field by field and in order.
"""

import itertools
from fractions import Fraction
from decimal import Decimal
from ..core import short_exc

NUMS = [("int", 5), ("float", "1e-09"), ("float", "0.1"), ("decimal", "0.001"), ("prefixed", "3", -9), ("prefixed", "11", -12), ("prefixed", "2.5", 3), ("numstr", "2.5"), ("prefixed", "1000", -3)]


def num_obj(h, spec):
    from hdl21.prefix import Prefix

    k = spec[0]
    if k == "int":
        return spec[1]
    if k == "float":
        return float(spec[1])
    if k == "decimal":
        return Decimal(spec[1])
    if k == "prefixed":
        return h.Prefixed(number=Decimal(spec[1]), prefix=Prefix.from_exp(spec[2]))
    if k == "numstr":
        return spec[1]
    raise ValueError(spec)


def num_float(spec):
    """The float nearest the exact value (floats given as floats stay what they are)."""
    k = spec[0]
    if k == "float":
        return float(spec[1])
    v = Fraction(spec[1]) * (Fraction(10) ** spec[2] if k == "prefixed" else 1)
    return v.numerator / v.denominator


def sweep_obj(h, hs, s):
    if s[0] == "lin":
        return hs.LinearSweep(start=num_obj(h, s[1]), stop=num_obj(h, s[2]), step=num_obj(h, s[3]))
    if s[0] == "log":
        return hs.LogSweep(start=num_obj(h, s[1]), stop=num_obj(h, s[2]), npts=s[3])
    return hs.PointSweep(points=[num_obj(h, x) for x in s[1]])


def mk_attr(h, hs, env, a):
    """Attribute spec -> hdl21.sim object."""
    k = a[0]
    name = a[-1] if k in ("op", "dc", "ac", "tran", "noise", "sweepan", "monte", "custom") else None
    kw = {"name": name} if name else {}
    if k == "op":
        return hs.Op(**kw)
    if k == "dc":
        var = a[1] if isinstance(a[1], str) else env["params"][a[1][1]]
        return hs.Dc(var=var, sweep=sweep_obj(h, hs, a[2]), **kw)
    if k == "ac":
        return hs.Ac(sweep=sweep_obj(h, hs, a[1]), **kw)
    if k == "tran":
        return hs.Tran(tstop=num_obj(h, a[1]), tstep=(num_obj(h, a[2]) if a[2] else None), **kw)
    if k == "noise":
        out = {"sig": env["tb"].outp, "pair": (env["tb"].outp, env["tb"].outn), "str": "outp", "diff": env["diff"]}[a[1]]
        src = {"inst": env["tb"].vsrc, "str": "vsrc"}[a[2]]
        return hs.Noise(output=out, input_source=src, sweep=sweep_obj(h, hs, a[3]), **kw)
    if k == "sweepan":
        var = a[2] if isinstance(a[2], str) else env["params"][a[2][1]]
        return hs.SweepAnalysis(inner=[mk_attr(h, hs, env, x) for x in a[1]], var=var, sweep=sweep_obj(h, hs, a[3]), **kw)
    if k == "monte":
        return hs.MonteCarlo(inner=[mk_attr(h, hs, env, x) for x in a[1]], npts=a[2], **kw)
    if k == "custom":
        return hs.CustomAnalysis(cmd=a[1], **kw)
    if k == "include":
        return hs.Include(path=a[1])
    if k == "lib":
        return hs.Lib(path=a[1], section=a[2])
    if k == "save":
        t = a[1]
        targ = {"all": hs.SaveMode.ALL, "none": hs.SaveMode.NONE, "sig": env["tb"].outp, "siglist": [env["tb"].outp, env["tb"].outn],
                "name": "outp", "namelist": ["outp", "outn"], "selected": hs.SaveMode.SELECTED}[t]
        return hs.Save(targ)
    if k == "meas":
        an = a[1] if isinstance(a[1], str) else env["analyses"][a[1][1]]
        return hs.Meas(analysis=an, expr=a[2], name=a[3])
    if k == "param":
        v = h.Literal(a[1][1]) if a[1][0] == "literal" else num_obj(h, a[1])
        p = hs.Param(val=v, name=a[2])
        env["params"][a[2]] = p
        return p
    if k == "literal":
        return h.Literal(a[1])
    if k == "options":
        v = a[1][1] if a[1][0] in ("bool", "str") else h.Literal(a[1][1]) if a[1][0] == "literal" else num_obj(h, a[1])
        return hs.Options(value=v, name=a[2])
    raise ValueError(a)


def mk_tb(h, hs, variant="ok", name="Tb"):
    tb = hs.tb(name) if variant != "noport" else h.Module(name=name)
    if variant == "twoports":
        tb.EXTRA = h.Port()
    if variant == "busport":
        tb = h.Module(name=name)
        tb.VSS = h.Port(width=2)
    if variant == "scalar_and_bus":  # the one scalar port, and a bus port next to it
        tb.BUS = h.Port(width=2)
    if variant == "scalar_and_two_buses":
        tb.BUS, tb.BUS3 = h.Input(width=2), h.Output(width=3)
    if variant == "bundleport":  # one scalar port and a two-signal bundle port: three scalar ports
        tb.dport = h.Diff(port=True)
    if variant == "bundleport1":  # one scalar port and a one-signal bundle port
        one = h.Bundle(name="One")
        one.x = h.Signal()
        tb.bport = one(port=True)
    if variant == "onlybundle":  # no scalar port, a two-signal bundle port
        tb = h.Module(name=name)
        tb.dport = h.Diff(port=True)
        tb.VSS = h.Signal()
    vss = tb.VSS if variant != "noport" else tb.add(h.Signal(name="VSS"))
    g = vss if variant != "busport" else vss[0]
    tb.outp, tb.outn = h.Signal(), h.Signal()
    tb.vsrc = h.Vdc(dc=1)(p=tb.outp, n=g)
    tb.r = h.R(r=1)(p=tb.outp, n=tb.outn)
    tb.r2 = h.R(r=1)(p=tb.outn, n=g)
    tb.dd = h.Diff()
    tb.r3 = h.R(r=1)(p=tb.dd.p, n=tb.dd.n)
    return tb


# ------------------------------------------------------------------------------------------------ the reference translator
def expected_sweep(s):
    if s[0] == "lin":
        return ("linear", dict(start=num_float(s[1]), stop=num_float(s[2]), step=num_float(s[3])))
    if s[0] == "log":
        return ("log", dict(start=num_float(s[1]), stop=num_float(s[2]), npts=float(s[3])))
    return ("points", dict(points=[num_float(x) for x in s[1]]))


def check_sweep(ps, s, where):
    kind, want = expected_sweep(s)
    if ps.WhichOneof("tp") != kind:
        return f"{where}: sweep kind {ps.WhichOneof('tp')}, expected {kind}"
    m = getattr(ps, kind)
    for f, v in want.items():
        got = list(getattr(m, f)) if f == "points" else getattr(m, f)
        if got != v:
            return f"{where}: sweep.{f} = {got!r}, expected {v!r}"
    return None


AN_KIND = {"op": "op", "dc": "dc", "ac": "ac", "tran": "tran", "noise": "noise", "sweepan": "sweep", "monte": "monte", "custom": "custom"}
AN_TYPE = {"op": "op", "dc": "dc", "ac": "ac", "tran": "tran", "noise": "noise", "sweepan": "sweep", "monte": "monte", "custom": "custom"}


def check_analysis(pa, a, where, names, var_names):
    k = a[0]
    if pa.WhichOneof("an") != AN_KIND[k]:
        return f"{where}: analysis kind {pa.WhichOneof('an')}, expected {AN_KIND[k]}"
    m = getattr(pa, AN_KIND[k])
    if a[-1]:
        if m.analysis_name != a[-1]:
            return f"{where}: analysis name {m.analysis_name!r}, expected {a[-1]!r}"
    elif not m.analysis_name:
        return f"{where}: unnamed analysis exported without a name"
    names.append((m.analysis_name, bool(a[-1])))
    if k == "dc":
        vn = a[1] if isinstance(a[1], str) else a[1][1]
        if m.indep_name != vn:
            return f"{where}: swept variable {m.indep_name!r}, expected {vn!r}"
        return check_sweep(m.sweep, a[2], where)
    if k == "ac":
        s = a[1]
        if (m.fstart, m.fstop, m.npts) != (num_float(s[1]), num_float(s[2]), s[3]):
            return f"{where}: ac sweep ({m.fstart}, {m.fstop}, {m.npts}), expected ({num_float(s[1])}, {num_float(s[2])}, {s[3]})"
    if k == "tran":
        if m.tstop != num_float(a[1]):
            return f"{where}: tstop {m.tstop!r}, expected {num_float(a[1])!r}"
        if a[2] and m.tstep != num_float(a[2]):
            return f"{where}: tstep {m.tstep!r}, expected {num_float(a[2])!r}"
    if k == "noise":
        want_p, want_n = ("outp", "outn") if a[1] == "pair" else ("dd_p", "dd_n") if a[1] == "diff" else ("outp", "")
        if (m.output_p, m.output_n) != (want_p, want_n):
            return f"{where}: noise output ({m.output_p!r}, {m.output_n!r}), expected ({want_p!r}, {want_n!r})"
        if m.input_source != "vsrc":
            return f"{where}: noise input source {m.input_source!r}"
        s = a[3]
        if (m.fstart, m.fstop, m.npts) != (num_float(s[1]), num_float(s[2]), s[3]):
            return f"{where}: noise sweep wrong"
    if k == "sweepan":
        vn = a[2] if isinstance(a[2], str) else a[2][1]
        if m.variable != vn:
            return f"{where}: sweep variable {m.variable!r}, expected {vn!r}"
        r = check_sweep(m.sweep, a[3], where)
        if r:
            return r
        if len(m.an) != len(a[1]):
            return f"{where}: {len(m.an)} inner analyses, expected {len(a[1])}"
        for j, (pi, ai) in enumerate(zip(m.an, a[1])):
            r = check_analysis(pi, ai, f"{where}.inner[{j}]", names, var_names)
            if r:
                return r
    if k == "monte":
        if m.npts != a[2]:
            return f"{where}: monte npts {m.npts}, expected {a[2]}"
        if len(m.an) != len(a[1]):
            return f"{where}: {len(m.an)} inner analyses, expected {len(a[1])}"
        for j, (pi, ai) in enumerate(zip(m.an, a[1])):
            r = check_analysis(pi, ai, f"{where}.inner[{j}]", names, var_names)
            if r:
                return r
    if k == "custom" and m.cmd != a[1]:
        return f"{where}: custom command {m.cmd!r}"
    return None


def check_value(pv, spec, where):
    from .c13 import observed, expected, matches

    if spec[0] == "bool":
        o = observed(pv)
        return None if (o[0] == "num" and o[1] == int(spec[1])) or (o[0] == "text" and o[1].lower() == str(spec[1]).lower()) else f"{where}: bool {spec[1]} exported as {o}"
    if spec[0] == "str":
        spec = ("textstr", spec[1])
    e = expected(spec, scalar_field=True)
    o = observed(pv)
    return None if matches(e, o) else f"{where}: value {o}, expected {e}"


def check_input(inp, attrs, tbname, style):
    # top names the testbench, present exactly once
    mods = [m for m in inp.pkg.modules if m.name == inp.top]
    if len(mods) != 1:
        return f"top {inp.top!r} names {len(mods)} modules of the package"
    if not inp.top.endswith(tbname) or len(mods[0].ports) != 1:
        return f"top {inp.top!r} is not the testbench {tbname!r}"
    ans = [a for a in attrs if a[0] in AN_KIND]
    ctrls = [a for a in attrs if a[0] in ("include", "lib", "save", "meas", "param", "literal")]
    opts = [a for a in attrs if a[0] == "options"]
    if (len(inp.an), len(inp.ctrls), len(inp.opts)) != (len(ans), len(ctrls), len(opts)):
        return f"{len(inp.an)} analyses / {len(inp.ctrls)} controls / {len(inp.opts)} options exported, expected {len(ans)} / {len(ctrls)} / {len(opts)}"
    names = []
    for j, (pa, a) in enumerate(zip(inp.an, ans)):
        r = check_analysis(pa, a, f"an[{j}]", names, None)
        if r:
            return r
    gen = [n for n, given in names if not given]
    if len(set(gen)) != len(gen):
        return f"generated analysis names not distinct: {gen}"
    for j, (pc, c) in enumerate(zip(inp.ctrls, ctrls)):
        k = c[0]
        want = {"include": "include", "lib": "lib", "save": "save", "meas": "meas", "param": "param", "literal": "literal"}[k]
        if pc.WhichOneof("ctrl") != want:
            return f"ctrls[{j}]: kind {pc.WhichOneof('ctrl')}, expected {want}"
        if k == "include" and pc.include.path != c[1]:
            return f"ctrls[{j}]: include path {pc.include.path!r}"
        if k == "lib" and (pc.lib.path, pc.lib.section) != (c[1], c[2]):
            return f"ctrls[{j}]: lib {pc.lib.path!r} / {pc.lib.section!r}"
        if k == "literal" and pc.literal != c[1]:
            return f"ctrls[{j}]: literal {pc.literal!r}"
        if k == "param":
            if pc.param.name != c[2]:
                return f"ctrls[{j}]: param name {pc.param.name!r}, expected {c[2]!r}"
            r = check_value(pc.param.value, c[1], f"ctrls[{j}] param {c[2]}")
            if r:
                return r
        if k == "meas":
            tp = c[1] if isinstance(c[1], str) else AN_TYPE[[a for a in ans if a[-1] == c[1][1]][0][0]]
            if pc.meas.analysis_type != tp:
                return f"ctrls[{j}]: meas analysis type {pc.meas.analysis_type!r}, expected {tp!r}"
            if (pc.meas.name, pc.meas.expr) != (c[3], c[2]):
                return f"ctrls[{j}]: meas ({pc.meas.name!r}, {pc.meas.expr!r})"
        if k == "save":
            import vlsir.spice_pb2 as vsp

            t = c[1]
            if t in ("all", "none"):
                if pc.save.WhichOneof("save") != "mode" or vsp.Save.SaveMode.Name(pc.save.mode) != t.upper():
                    return f"ctrls[{j}]: save mode not {t.upper()}"
            else:
                want_names = {"sig": ["outp"], "siglist": ["outp", "outn"], "name": ["outp"], "namelist": ["outp", "outn"]}[t]
                got = [x.strip() for x in pc.save.signal.replace(";", ",").replace(" ", ",").split(",") if x.strip()]
                if got != want_names:
                    return f"ctrls[{j}]: save target {pc.save.signal!r}, expected the signals {want_names}"
    for j, (po, o) in enumerate(zip(inp.opts, opts)):
        if po.name != o[2]:
            return f"opts[{j}]: name {po.name!r}, expected {o[2]!r}"
        r = check_value(po.value, o[1], f"opts[{j}] {o[2]}")
        if r:
            return r
    return None


# ------------------------------------------------------------------------------------------------ scenarios
def scenarios(quick):
    sw = [("lin", NUMS[0], NUMS[4], NUMS[1]), ("log", NUMS[1], NUMS[6], 10), ("pts", [NUMS[0], NUMS[3], NUMS[5]])]
    out = []
    # every analysis type x named / unnamed x numeric spellings
    for named in (True, False):
        nm = lambda s: (s if named else None)
        out.append([("op", nm("op1"))])
        for n in NUMS:
            out.append([("tran", n, None, nm("tr1"))])
            out.append([("tran", NUMS[0], n, nm("tr2"))])
            out.append([("ac", ("log", n, NUMS[6], 7), nm("ac1"))])
            out.append([("dc", "vin", ("lin", n, NUMS[6], NUMS[3]), nm("dc1"))])
            out.append([("dc", "vin", ("pts", [n, NUMS[0]]), nm("dc2"))])
        for s in sw:
            out.append([("param", NUMS[0], "x"), ("dc", ("param", "x"), s, nm("dcp"))])
            out.append([("sweepan", [("tran", NUMS[4], None, nm("in1"))], "temp", s, nm("sw1"))])
        for o, i in itertools.product(("sig", "pair", "str", "diff"), ("inst", "str")):
            out.append([("noise", o, i, ("log", NUMS[0], NUMS[6], 5), nm("nz"))])
        out.append([("custom", ".pz v(out) i(in)", nm("cu"))])
        out.append([("monte", [("op", nm("mop")), ("tran", NUMS[5], None, nm("mtr"))], 11, nm("mc"))])
        # nesting depth 3: Sweep > Monte > Tran, Monte > Sweep > {Dc, Op}
        out.append([("sweepan", [("monte", [("tran", NUMS[4], NUMS[5], nm("t3"))], 3, nm("m2"))], "p", sw[0], nm("s1")), ("op", nm("after"))])
        out.append([("monte", [("sweepan", [("dc", "v", sw[2], nm("d3")), ("op", nm("o3"))], "q", sw[1], nm("s2"))], 4, nm("m1")), ("tran", NUMS[0], None, nm("last"))])
    # a measurement naming, by object, an analysis of every kind
    every = [("op", "a_op"), ("dc", "vin", sw[0], "a_dc"), ("ac", ("log", NUMS[0], NUMS[6], 3), "a_ac"), ("tran", NUMS[4], None, "a_tran"),
             ("noise", "sig", "inst", ("log", NUMS[0], NUMS[6], 5), "a_noise"), ("sweepan", [("op", "in_sw")], "temp", sw[0], "a_sweep"),
             ("monte", [("op", "in_mc")], 3, "a_monte"), ("custom", ".pz v(out) i(in)", "a_custom")]
    out.append(every + [("meas", ("an", a[-1]), f"max v(x{k})", f"m{k}") for k, a in enumerate(every)])
    for k, a in enumerate(every):
        out.append([a, ("meas", ("an", a[-1]), "min v(y)", "mm")])
    # several unnamed analyses, flat and nested: generated names must be distinct
    out.append([("op", None), ("op", None), ("tran", NUMS[0], None, None), ("monte", [("op", None), ("op", None)], 2, None), ("sweepan", [("op", None)], "x", sw[0], None), ("op", None)])
    # controls and options, order preserved
    for t in ("all", "none", "sig", "siglist", "name", "namelist"):
        out.append([("save", t), ("op", "o")])
    for n in NUMS:
        out.append([("param", n, "p1"), ("param", ("literal", "2*p1"), "p2"), ("options", n, "reltol")])
    out.append([("include", "/models/a.sp"), ("lib", "/models/lib.sp", "tt"), ("literal", ".option post"), ("tran", NUMS[4], None, "tr"), ("meas", ("an", "tr"), "trig v(a)", "delay"), ("meas", "tran", "max v(b)", "vmax"),
                ("options", ("bool", True), "savecurrents"), ("options", ("str", "gear"), "method"), ("options", ("literal", "1e-6*k"), "abstol"), ("save", "all")])
    out.append([("lib", "/b", "ff"), ("include", "/a"), ("options", NUMS[1], "o2"), ("param", NUMS[4], "zz"), ("options", NUMS[0], "o1"), ("op", "x1"), ("ac", ("log", NUMS[0], NUMS[6], 3), "x2"), ("save", "none"), ("literal", "* c")])
    return out


def _one(item):
    import hdl21 as h
    import hdl21.sim as hs

    attrs, style, listing = item
    try:
        tb = mk_tb(h, hs, "ok", "Tb")
        env = dict(tb=tb, params={}, analyses={}, diff=tb.dd)
        objs = []
        for a in attrs:
            o = mk_attr(h, hs, env, a)
            if a[0] in AN_KIND and a[-1]:
                env["analyses"][a[-1]] = o
            objs.append(o)
        if style == "ctor":
            s = hs.Sim(tb=tb, attrs=objs)
        elif style == "add":
            s = hs.Sim(tb=tb)
            for o in objs:
                if s.add(o) is not o:
                    return "add() did not return the added attribute"
        elif style == "add_many":
            # one call of add() with all the attributes, then one with none
            s = hs.Sim(tb=tb)
            got = s.add(*objs)
            if len(objs) > 1 and not (isinstance(got, (list, tuple)) and len(got) == len(objs) and all(x is y for x, y in zip(got, objs))):
                return "add(*attrs) did not return the added attributes"
        elif style == "methods":
            s = hs.Sim(tb=tb)
            for a, o in zip(attrs, objs):
                meth = {"sweepan": "sweepanalysis", "monte": "montecarlo", "custom": "customanalysis"}.get(a[0], a[0])
                if a[0] == "literal":
                    s.literal(a[1])
                elif a[0] in ("op", "tran", "save", "include", "lib", "param", "options", "meas", "dc", "ac", "noise", "sweepan", "monte", "custom"):
                    import dataclasses

                    kw = {f.name: getattr(o, f.name) for f in dataclasses.fields(o)}
                    getattr(s, meth)(**kw)
                else:
                    s.add(o)
        elif style == "class":
            ns = {"tb": tb}
            for k, (a, o) in enumerate(zip(attrs, objs)):
                key = a[-1] if a[0] in AN_KIND and a[-1] else a[2] if a[0] in ("param", "options") else a[3] if a[0] == "meas" else "_"
                if key == "_" or key in ns:
                    key = "_" if "_" not in ns else f"attr{k}"
                ns[key] = o
            s = hs.sim(type("MySim", (), ns))
        if listing == "single":
            inps = [hs.to_proto(s)]
            sims = [(attrs, "Tb")]
        elif listing == "shared":
            s2 = hs.Sim(tb=tb, attrs=[hs.Op(name="second")])
            inps = hs.to_proto([s, s2])
            sims = [(attrs, "Tb"), ([("op", "second")], "Tb")]
        elif listing == "interleaved":
            # two Sims sharing a testbench, with one on another testbench between them: results keep the order given
            tb2 = mk_tb(h, hs, "ok", "Tb2")
            s2 = hs.Sim(tb=tb2, attrs=[hs.Op(name="second")])
            s3 = hs.Sim(tb=tb, attrs=[hs.Op(name="third"), hs.Op(name="fourth")])
            inps = hs.to_proto([s, s2, s3])
            sims = [(attrs, "Tb"), ([("op", "second")], "Tb2"), ([("op", "third"), ("op", "fourth")], "Tb")]
        else:
            tb2 = mk_tb(h, hs, "ok", "Tb2")
            s2 = hs.Sim(tb=tb2, attrs=[hs.Op(name="second")])
            inps = hs.to_proto([s2, s])
            sims = [([("op", "second")], "Tb2"), (attrs, "Tb")]
    except Exception as e:
        return "raised: " + short_exc(e)
    if len(inps) != len(sims):
        return f"{len(inps)} SimInputs for {len(sims)} Sims"
    import hashlib

    dig = hashlib.sha1()
    for inp, (at, tbn) in zip(inps, sims):
        r = check_input(inp, at, tbn, style)
        if r:
            return r
        for part in (inp.an, inp.ctrls, inp.opts):
            for x in part:
                dig.update(x.SerializeToString(deterministic=True))
    return ("ok", dig.hexdigest()[:12])


def _all_names(an, out):
    """(name, kind) of an exported analysis and, recursively, of its inner analyses."""
    k = an.WhichOneof("an")
    body = getattr(an, k)
    out.append(body.analysis_name)
    for inner in getattr(body, "an", []):
        _all_names(inner, out)
    return out


def _shared_unnamed(variant):
    """One *unnamed* analysis object used in more than one place: at the top level and inside a sweep / Monte Carlo, at
    different positions of two Sims, exported in a list, one after the other, or twice.  Generated names must be distinct
    within every SimInput, every time."""
    import hdl21 as h
    import hdl21.sim as hs

    try:
        tb = mk_tb(h, hs, "ok", "Tb")
        o = hs.Op()
        t = hs.Tran(tstop=1)
        if variant == "top_and_nested":
            sims = [hs.Sim(tb=tb, attrs=[o, hs.SweepAnalysis(inner=[o], var="temp", sweep=hs.LinearSweep(0, 1, 1)), hs.MonteCarlo(inner=[o, t], npts=2), t])]
        elif variant == "two_sims_positions":
            sims = [hs.Sim(tb=tb, attrs=[t, o]), hs.Sim(tb=tb, attrs=[o, t, hs.Op()])]
        else:  # "again": the same Sims exported a second time
            sims = [hs.Sim(tb=tb, attrs=[hs.Op(), o, t]), hs.Sim(tb=tb, attrs=[o, hs.Op(), t])]
        rounds = [hs.to_proto(sims)] + [[hs.to_proto(s_) for s_ in sims]] + ([hs.to_proto(sims)] if variant == "again" else [])
        first = None
        for inps in rounds:
            allnames = []
            for inp, s_ in zip(inps, sims):
                names = []
                for an in inp.an:
                    _all_names(an, names)
                if len(inp.an) != len([a for a in s_.attrs if isinstance(a, (hs.Op, hs.Tran, hs.SweepAnalysis, hs.MonteCarlo))]):
                    return f"{len(inp.an)} analyses exported for {len(s_.attrs)} given"
                if len(set(names)) != len(names) or not all(names):
                    return f"analysis names of one SimInput are not distinct: {names}"
                allnames.append(names)
            if first is None:
                first = allnames
            elif allnames != first:
                return f"exporting again names the analyses {allnames}, the first time {first}"
        if o.name is not None or t.name is not None:
            return f"exporting gave the designer's unnamed analysis objects the names {o.name!r}, {t.name!r}"
    except Exception as e:
        return "raised: " + short_exc(e)
    return None


def _class_crossref(variant):
    """A class-defined Sim whose attributes refer to one another *by object* (a Dc / sweep over a Param defined above, an
    analysis listed as the inner analysis of a sweep / Monte Carlo): the names the class body gives are the names exported,
    wherever the object is used."""
    import hdl21 as h
    import hdl21.sim as hs

    variant, _, pre = variant.partition("/")  # the class keys may start with underscores: only the bare `_` is a throw-away name
    try:
        tb = mk_tb(h, hs, "ok", "Tb")
        xp = hs.Param(val=5)
        tr = hs.Tran(tstop=1)
        ns = {"tb": tb, pre + "x": xp, pre + "mytran": tr}
        if variant == "dc":
            ns[pre + "mydc"] = hs.Dc(var=xp, sweep=hs.LinearSweep(0, 1, 1))
        elif variant == "sweep":
            ns[pre + "mysw"] = hs.SweepAnalysis(inner=[tr], var=xp, sweep=hs.LinearSweep(0, 1, 1))
        else:
            ns[pre + "mymc"] = hs.MonteCarlo(inner=[tr, hs.Op()], npts=2)
        inp = hs.to_proto(hs.sim(type("CrossSim", (), ns)))
        pars = [c.param.name for c in inp.ctrls if c.WhichOneof("ctrl") == "param"]
        if pars != [pre + "x"]:
            return f"parameter controls exported as {pars}, the class body calls it 'x'"
        tops = [_all_names(a, []) for a in inp.an]
        if tops[0] != [pre + "mytran"]:
            return f"the analysis bound to `mytran` is exported as {tops[0]}"
        if variant == "dc":
            if inp.an[1].dc.indep_name != pre + "x":
                return f"Dc over the Param bound to `x` sweeps {inp.an[1].dc.indep_name!r}"
        elif variant == "sweep":
            if inp.an[1].sweep.variable != pre + "x" or tops[1] != [pre + "mysw", pre + "mytran"]:
                return f"the sweep over `x` with inner analysis `mytran` is exported with variable {inp.an[1].sweep.variable!r} and inner names {tops[1][1:]}"
        else:
            if tops[1][:2] != [pre + "mymc", pre + "mytran"] or len(set(tops[1])) != len(tops[1]):
                return f"the Monte Carlo with inner analysis `mytran` is exported with inner names {tops[1][1:]}"
    except Exception as e:
        return "raised: " + short_exc(e)
    return None


def _same_named_tbs(order):
    """Two different testbenches whose bare names coincide (one defined in a Python module, one through exec - as in a
    notebook): both are in the package, and each SimInput's top is its own testbench."""
    import hdl21 as h
    import hdl21.sim as hs

    try:
        tb1 = mk_tb(h, hs, "ok", "Tb")
        ns = {}
        exec("import hdl21 as h\nimport hdl21.sim as hs\ntb = hs.tb('Tb')\ntb.only_here = h.Signal()\ntb.r = h.R(r=7)(p=tb.only_here, n=tb.VSS)\n", ns)
        tb2 = ns["tb"]
        s1, s2 = hs.Sim(tb=tb1, attrs=[hs.Op(name="one")]), hs.Sim(tb=tb2, attrs=[hs.Op(name="two")])
        sims = [s1, s2] if order == "12" else [s2, s1]
        inps = hs.to_proto(sims)
        for inp, s_ in zip(inps, sims):
            mods = [m for m in inp.pkg.modules if m.name == inp.top]
            if len(mods) != 1:
                return f"top {inp.top!r} names {len(mods)} modules of the package {[m.name for m in inp.pkg.modules]}"
            has = any(sg.name == "only_here" for sg in mods[0].signals)
            if has != (s_ is s2):
                return f"the SimInput of the Sim on testbench {'2' if s_ is s2 else '1'} has the other testbench as its top ({inp.top!r})"
        if inps[0].top == inps[1].top:
            return f"two different testbenches exported under one name {inps[0].top!r}"
    except Exception as e:
        # refusing a list whose testbench names cannot be told apart is sound
        return None if "name" in str(e).lower() or "conflict" in str(e).lower() else "raised: " + short_exc(e)
    return None


def _bad_tb(item):
    import hdl21 as h
    import hdl21.sim as hs

    variant, how = item if isinstance(item, (tuple, list)) else (item, "single")
    try:
        tb = mk_tb(h, hs, variant, "BadTb")
        if how == "elaborated":
            h.elaborate(tb)
        s = hs.Sim(tb=tb, attrs=[hs.Op()])
        if how == "after_good":
            hs.to_proto([hs.Sim(tb=mk_tb(h, hs, "ok", "GoodTb"), attrs=[hs.Op()]), s])
        elif how == "before_good":
            hs.to_proto([s, hs.Sim(tb=mk_tb(h, hs, "ok", "GoodTb"), attrs=[hs.Op()])])
        else:
            hs.to_proto(s)
        return f"testbench variant {variant!r} ({how}) accepted"
    except Exception:
        return None


def run(ctx):
    sc = scenarios(ctx.quick)
    items = []
    for k, attrs in enumerate(sc):
        for style in ("ctor", "add", "add_many", "methods", "class"):
            for listing in ("single", "shared", "distinct", "interleaved"):
                items.append((attrs, style, listing))
    res = ctx.pmap(_one, items, chunk=20)
    for it, r in zip(items, res):
        ctx.count(states=1, transitions=2, traces_validated_against_impl=1)
        ctx.fam(it[1] + "/" + it[2], cases=1)
        if isinstance(r, tuple):
            ctx.outcome("inp:" + r[1])
            r = None
        else:
            ctx.outcome(r[:30])
        if r:
            kinds = sorted({a[0] for a in it[0]})
            save_t = [a[1] for a in it[0] if a[0] == "save"]
            what = r.split(":")[0] if r.startswith("raised") else r[:45]
            if r.startswith("raised"):
                what = "raised " + r.split(":")[1].strip()
            ctx.violation(dict(style=it[1], what=what, save_target=",".join(save_t)), dict(attrs=it[0], style=it[1], listing=it[2]), r)
    import itertools as _it
    for v in _it.product(("noport", "twoports", "busport", "scalar_and_bus", "scalar_and_two_buses", "bundleport", "bundleport1", "onlybundle"), ("single", "elaborated", "after_good", "before_good")):
        r = _bad_tb(v)
        ctx.count(states=1, transitions=1, traces_validated_against_impl=1)
        ctx.fam("bad_testbenches", cases=1)
        if r:
            ctx.violation(dict(style="-", what=r, save_target=""), dict(bad_tb=list(v)), r)
    for v in ("top_and_nested", "two_sims_positions", "again"):
        r = _shared_unnamed(v)
        ctx.count(states=1, transitions=3, traces_validated_against_impl=1)
        ctx.fam("shared_unnamed_analysis", cases=1)
        if r:
            ctx.violation(dict(style="-", what="shared unnamed analysis: " + r[:40], save_target=""), dict(shared_unnamed=v), r)
    for v in [k + "/" + pre for k in ("dc", "sweep", "monte") for pre in ("", "_", "__", "_1")]:
        r = _class_crossref(v)
        ctx.count(states=1, transitions=2, traces_validated_against_impl=1)
        ctx.fam("class_body_cross_references", cases=1)
        if r:
            ctx.violation(dict(style="class", what="cross reference: " + r[:40], save_target=""), dict(class_crossref=v), r)
    for v in ("12", "21"):
        r = _same_named_tbs(v)
        ctx.count(states=1, transitions=2, traces_validated_against_impl=1)
        ctx.fam("same_named_testbenches", cases=1)
        if r:
            ctx.violation(dict(style="-", what="same-named testbenches: " + r[:40], save_target=""), dict(same_named_tbs=v), r)
    ctx.sample(dict(attrs=sc[0], style="ctor", listing="single"))
    ctx.sample(dict(attrs=sc[-2], style="class", listing="distinct"))
    ctx.assume("SaveMode.SELECTED has no counterpart in the VLSIR schema and is not in the alphabet",
               "a clash between a generated analysis name and a user-chosen one is not demanded by the statement and not judged")


def replay(body):
    c = body["case"]
    if "bad_tb" in c:
        r = _bad_tb(c["bad_tb"])
    elif "shared_unnamed" in c:
        r = _shared_unnamed(c["shared_unnamed"])
    elif "class_crossref" in c:
        r = _class_crossref(c["class_crossref"])
    elif "same_named_tbs" in c:
        r = _same_named_tbs(c["same_named_tbs"])
    else:
        def tup(x):
            if isinstance(x, list):
                if x and isinstance(x[0], str) and x[0] in ("int", "float", "decimal", "prefixed", "numstr", "lin", "log", "pts", "param", "an", "literal", "bool", "str") or (x and isinstance(x[0], str) and x[0] in AN_KIND) or (x and isinstance(x[0], str) and x[0] in ("include", "lib", "save", "meas", "options")):
                    return tuple(tup(y) for y in x)
                return [tup(y) for y in x]
            return x

        r = _one(([tup(a) for a in c["attrs"]], c["style"], c["listing"]))
    r = None if isinstance(r, tuple) else r
    print("replay:", r or "holds")
    return 1 if r else 0
