"""
C12 — output is reproducible across processes (engine E4: iteration-order exploration + seed conformance leg).

Deciding leg: for every design of the corpus, all executions with at most 1 (2 thorough) deviations from insertion
order at the choice points where Hdl21 iterates a hash set of >= 2 elements (see hv/permset.py); every run's serialized
package and spice / spectre / verilog netlists must equal those of the 0-deviation run.
Conformance leg (sampling, validates the seam - not the deciding step): the same corpus in real sub-processes under
several PYTHONHASHSEED values with random amounts of unrelated allocation and elaboration first; the outputs must agree
with each other and with the explored runs.
"""

import io, os, sys, json, hashlib, importlib, subprocess, itertools, random
from ..core import short_exc, ROOT
from .. import permset
from ..families import dags

FAMS = [("f9_multifeed", 3), ("f2_portrefs", 97), ("f4_bundles", 1), ("f6_pairs", 3), ("f7_hier", 53), ("f8_names", 7), ("f5_arrays", 11), ("f3_noconn", 37)]


def corpus(tier):
    items = []
    for fname, stride in FAMS:
        mod = importlib.import_module(f"hv.families.{fname}")
        its = mod.items("quick")
        if tier != "quick":
            stride = max(1, stride // 3)
        items += [("fam", fname, d) for d in its[::stride]]
    # every F2 design (k=2, scalar ports) in which all four ports are tied by plain references only: pure reference cycles,
    # where the implicit signal's name is decided among ports that are all connected
    f2 = importlib.import_module("hv.families.f2_portrefs")
    menus = f2.menus_for(2, 1, True)
    for d in f2.items("quick"):
        if d[0] == 2 and d[1] == 1 and all(menus[j][ix] is not None and menus[j][ix][0] == "pref" for j, ix in enumerate(d[3])):
            items.append(("fam", "f2_portrefs", d))
    for dname in dags.DAGS:
        for top in dags.DAGS[dname]()["modules"]:
            items.append(("dag", dname, top))
    # the tops again, flattened (hdl21.flatten) before they are exported
    for dname, tops in (("dag1", ("T", "T2", "C2")), ("dag2", ("P", "Q"))):
        for top in tops:
            items.append(("flat", dname, top))
    for ex in ["ro", "rdac", "encoder", "diff_ota", "idac", "bundles"]:
        items.append(("example", ex, None))
    # generated modules whose names are made from parameter values: calls of a dict-parameter external module, a set of
    # strings, and a value the naming encoder cannot serialise (refused - in every process alike)
    for what in ("dictcalls", "frozenset", "function"):
        items.append(("gen", what, None))
    return items


def produce_gen(what, earlier=0):
    """A generator-built chain whose module names depend on the parameter values given.  `earlier` = amount of unrelated
    work done first: a sizing search whose candidate devices are created, hashed (de-duplicated in a set) and dropped."""
    import hdl21 as h
    from typing import FrozenSet, Any

    h.generator.cache.reset()
    nfet = h.ExternalModule(name="nfet", domain="pdk", port_list=[h.Port(name="d"), h.Port(name="g"), h.Port(name="s")], paramtype=dict)
    cands = [nfet(w=100 + k, l=7 + k % 5, nf=1 + k % 3) for k in range(earlier)]
    best = min(set(cands), key=lambda c: c.params["w"], default=None)
    del cands, best

    @h.paramclass
    class SP:
        dev = h.Param(dtype=h.Instantiable, desc="device", default=h.R(r=1))
        tags = h.Param(dtype=FrozenSet[str], desc="tags", default=frozenset())
        fn = h.Param(dtype=Any, desc="anything", default=None)

    @h.generator
    def Stage(p: SP) -> h.Module:
        m = h.Module()
        m.inp, m.out = h.Input(), h.Output()
        if p.dev.name.startswith("nfet") if hasattr(p.dev, "name") else False:
            m.i = p.dev(d=m.out, g=m.inp, s=m.inp)
        else:
            m.i = h.R(r=2)(p=m.inp, n=m.out)
        return m

    top = h.Module(name="Chain")
    top.inp, top.out = h.Input(), h.Output()
    prev = top.inp
    for k in range(5):
        nxt = top.out if k == 4 else top.add(h.Signal(name=f"n{k}"))
        if what == "dictcalls":
            st = Stage(dev=nfet(w=1 + k // 2, l=1, nf=2))
        elif what == "frozenset":
            st = Stage(tags=frozenset(["alpha", "beta", "gamma", f"k{k // 2}"]))
        else:
            st = Stage(fn=(lambda x: x))
        top.add(st(inp=prev, out=nxt), name=f"s{k}")
        prev = nxt
    return top


_LIB = {}


def produce_handon(earlier=0):
    """Library generators that live as long as the process: a parameter-less `Core`, and a parametric `Wrap` that hands
    Core's module on unchanged.  The design under test uses Core directly; the unrelated earlier work (if any) exports
    other designs that go through Wrap."""
    import hdl21 as h

    if not _LIB:
        @h.generator
        def Core(p: h.HasNoParams) -> h.Module:
            m = h.Module()
            m.inp, m.out = h.Input(), h.Output()
            m.r = h.R(r=2)(p=m.inp, n=m.out)
            return m

        @h.paramclass
        class XP:
            x = h.Param(dtype=int, desc="x", default=3)

        @h.generator
        def Wrap(p: XP) -> h.Module:
            return Core()

        _LIB.update(Core=Core, Wrap=Wrap)
    for k in range(min(earlier, 3)):
        other = h.Module(name=f"Other{k}")
        other.a, other.b = h.Signal(), h.Signal()
        other.w = _LIB["Wrap"](x=3 + k)(inp=other.a, out=other.b)
        h.to_proto(other)
    top = h.Module(name="Chain")
    top.inp, top.out = h.Input(), h.Output()
    top.mid = h.Signal()
    top.s0 = _LIB["Core"]()(inp=top.inp, out=top.mid)
    top.s1 = _LIB["Core"]()(inp=top.mid, out=top.out)
    return top


def produce(item):
    """Build + export + netlist one corpus item; returns the list of output strings (exceptions are outputs too)."""
    import hdl21 as h
    from ..build import build

    kind, a, b = item
    outs = []
    if kind == "example":
        from . import c06

        if "/repo" not in sys.path:
            sys.path.append("/repo")
        h.generator.cache.reset()
        mod = importlib.import_module(f"examples.{a}")
        mod = importlib.reload(mod)  # module-level designs are rebuilt, so that every run starts from fresh objects
        try:
            pkgs = c06._capture_packages(mod.main)
            outs = [p.SerializeToString(deterministic=True).hex() for p in pkgs]
        except Exception as e:
            outs = ["raised " + short_exc(e)]
        return outs
    if kind == "gen":
        try:
            pkg = h.to_proto(produce_gen(a))
        except Exception as e:
            return ["raised " + type(e).__name__]
    else:
        if kind == "fam":
            fam, design = importlib.import_module(f"hv.families.{a}").design(b)
        else:
            design = dags.with_top(dags.DAGS[a](), b)
        try:
            built = build(design)
            if kind == "flat":
                from hdl21.flatten import flatten

                pkg = h.to_proto(flatten(built.top))
            else:
                pkg = h.to_proto(built.top)
        except Exception as e:
            return ["raised " + type(e).__name__]
    outs.append(pkg.SerializeToString(deterministic=True).hex())
    for fmt in ("spice", "spectre", "verilog"):
        s = io.StringIO()
        try:
            h.netlist(pkg, s, fmt=fmt)
            outs.append(s.getvalue())
        except Exception as e:
            outs.append("raised " + type(e).__name__)
    return outs


def _alloc_histories(what):
    """The same generated-name design after different amounts of unrelated earlier work in one process: equal outputs."""
    import hdl21 as h

    outs = {}
    for earlier in (0, 30, 200, 0, 800, 30, 100, 400, 1600, 7, 0, 250):
        try:
            pkg = h.to_proto(produce_gen(what, earlier) if what != "handon" else produce_handon(earlier))
            outs.setdefault(hashlib.sha1(pkg.SerializeToString(deterministic=True)).hexdigest(), []).append(earlier)
        except Exception as e:
            outs.setdefault("raised " + type(e).__name__, []).append(earlier)
    return outs


def run_with(item, plan):
    permset.CTL.reset(plan)
    permset.CTL.active = True
    try:
        outs = produce(item)
    finally:
        permset.CTL.active = False
    return outs, list(permset.CTL.points)


def _explore(arg):
    item, bound = arg
    permset.install()
    import hdl21.signal as hs

    if type(hs.Signal()._connected_ports) is not permset.PermSet:
        return dict(error="seam lost: hdl21.signal no longer builds its back-reference sets through the rebindable name `set`")
    try:
        base, points = run_with(item, {})
    except permset.Divergence as e:
        return dict(error=str(e))
    digest = hashlib.sha1("\x00".join(base).encode()).hexdigest()
    runs, bad = 1, []
    plans = []
    for i, k in enumerate(points):
        for perm in permset.alternatives(k):
            plans.append({i: perm})
    if bound >= 2 and len(points) <= 12:
        for i, j in itertools.combinations(range(len(points)), 2):
            for pi in permset.alternatives(points[i])[:3]:
                for pj in permset.alternatives(points[j])[:3]:
                    plans.append({i: pi, j: pj})
    capped = False
    if len(plans) > 400:
        plans = plans[:400]
        capped = True
    for plan in plans:
        try:
            outs, pts = run_with(item, plan)
        except permset.Divergence as e:
            bad.append(dict(plan={str(k): list(v) for k, v in plan.items()}, what="replayed prefix diverged: " + str(e)))
            continue
        runs += 1
        first = min(plan)
        if pts[: first + 1] != points[: first + 1]:
            bad.append(dict(plan={str(k): list(v) for k, v in plan.items()}, what=f"replayed prefix diverged: choice-point sizes {pts[:first+1]} vs {points[:first+1]}"))
            continue
        if outs != base:
            which = [n for n, (x, y) in enumerate(zip(outs, base)) if x != y]
            names = ["package", "spice", "spectre", "verilog"]
            bad.append(dict(plan={str(k): list(v) for k, v in plan.items()}, what="output depends on set iteration order: " + ",".join(names[w] if w < 4 else f"pkg{w}" for w in which)))
    return dict(points=points, runs=runs, bad=bad[:3], nbad=len(bad), digest=digest, capped=capped)


SEEDLEG = r"""
import sys, json, random, hashlib
sys.path.insert(0, %r)
noise = %d
random.seed(noise)
junk = [object() for _ in range(random.randrange(0, 50000))]
import hdl21 as h
for k in range(noise %% 7):
    m = h.Module(name=f"Noise{k}")
    m.s = h.Signal(width=k + 1)
    m.r = h.R(r=k)(p=m.s[0], n=m.s[0])
    h.elaborate(m)
# unrelated earlier work of another kind: a sizing search whose candidate devices are hashed, compared and dropped again
_dev = h.ExternalModule(name="nfet", domain="pdk", port_list=[h.Port(name="d"), h.Port(name="g"), h.Port(name="s")], paramtype=dict)
_cands = [_dev(w=100 + k, l=7 + k %% 5, nf=1 + k %% 3) for k in range((noise %% 5) * 40)]
_best = min(set(_cands), key=lambda c: c.params["w"], default=None)
del _cands, _best
from hv.checks import c12
items = c12.corpus(%r)
out = {}
for idx in %r:
    it = items[idx]
    outs = c12.produce(it)
    out[str(idx)] = hashlib.sha1("\x00".join(outs).encode()).hexdigest()
print(json.dumps(out, sort_keys=True))
"""


def run(ctx):
    items = corpus(ctx.tier)
    bound = 1 if ctx.quick else 2
    res = ctx.pmap(_explore, [(it, bound) for it in items], chunk=2, recycle=2)
    digests = {}
    npoints = 0
    for idx, (it, r) in enumerate(zip(items, res)):
        label = f"{it[0]}:{it[1]}"
        if "error" in r:
            ctx.violation(dict(kind="harness", corpus=it[1]), dict(item=list(it[:2]) + [repr(it[2])[:200]]), r["error"])
            continue
        ctx.count(states=r["runs"], transitions=r["runs"] * 5, traces_validated_against_impl=r["runs"])
        ctx.fam(it[1], designs=1, choice_points=len(r["points"]), runs=r["runs"])
        npoints += len(r["points"])
        digests[idx] = r["digest"]
        ctx.outcome(("dep" if r["nbad"] else "indep") + f":{len(r['points'])}")
        if r["capped"]:
            ctx.cap(f"{label}: more than 400 deviation plans, first 400 run")
        if r["nbad"]:
            ctx.violation(dict(kind="order_dependent", corpus=it[1], what=r["bad"][0]["what"][:70]), dict(item=[it[0], it[1], it[2]], index=idx, plans=r["bad"]), r["bad"][0]["what"])
    ctx.extra["choice_points_total"] = npoints
    ctx.extra["deviation_bound"] = bound
    ctx.extra["rebound_modules"] = permset.install()
    from .. import setseam

    import hdl21.signal as _hs

    ctx.extra["import_seam"] = dict(setseam.STATS, active=(_hs.__dict__.get("set") is permset.PermSet and setseam.STATS["modules"] > 0))
    if not ctx.extra["import_seam"]["active"]:
        ctx.violation(dict(kind="harness", corpus="import_seam"), dict(), "the import-time set seam is not active: set displays and comprehensions would not be explored")
    # ---- unrelated earlier work in the same process (allocation histories) ----
    for what, outs in zip(("dictcalls", "frozenset", "function", "handon"), ctx.pmap(_alloc_histories, ["dictcalls", "frozenset", "function", "handon"], chunk=1)):
        ctx.count(states=12, transitions=12, traces_validated_against_impl=12)
        ctx.fam("allocation_histories", runs=12)
        if len(outs) != 1:
            ctx.violation(dict(kind="allocation_dependent", corpus=what), dict(alloc=what, outputs=outs), f"the package of one design program differs with the amount of unrelated earlier work: {outs}")
    # ---- seed conformance leg ----
    rnd = random.Random(ctx.seed)
    idxs = sorted(rnd.sample(range(len(items)), min(len(items), 40 if ctx.quick else 120)))
    idxs = sorted(set(idxs) | {i for i, it in enumerate(items) if it[0] in ("gen", "flat")})  # the generated-name and the flattened designs always take part
    idxs = [i for i in idxs if i in digests]
    seeds = ["0", "1", "2", "31337", "99", str(1000 + ctx.seed), "424242", "7"][: 5 if ctx.quick else 8]
    procs = []
    for s in seeds:
        env = dict(os.environ, PYTHONHASHSEED=s)
        code = SEEDLEG % (str(ROOT), rnd.randrange(1, 10**6), ctx.tier, idxs)
        procs.append((s, subprocess.Popen([sys.executable, "-W", "ignore", "-c", code], stdout=subprocess.PIPE, stderr=subprocess.PIPE, text=True, env=env)))
    outs = {}
    for s, p in procs:
        o, e = p.communicate(timeout=900)
        last = o.strip().splitlines()[-1] if o.strip() else ""
        try:
            outs[s] = json.loads(last)
        except Exception:
            ctx.violation(dict(kind="harness", corpus="seed_leg"), dict(seed=s), "seed-leg process failed: " + e[-400:])
    ctx.count(states=len(outs) * len(idxs), transitions=len(outs) * len(idxs), traces_validated_against_impl=len(outs) * len(idxs))
    ctx.fam("seed_leg", processes=len(outs), designs_each=len(idxs))
    for i in idxs:
        vals = {s: o.get(str(i)) for s, o in outs.items()}
        distinct = set(vals.values())
        explored_dependent = any(v[0].get("kind") == "order_dependent" and v[1] for v in [])
        if len(distinct) > 1:
            ctx.violation(dict(kind="seed_dependent", corpus=items[i][1]), dict(item=[items[i][0], items[i][1], items[i][2]], index=i, digests=vals),
                          "outputs differ between processes with different PYTHONHASHSEED")
        elif distinct and distinct != {digests[i]} and items[i][0] != "example":
            ctx.violation(dict(kind="seam_incomplete", corpus=items[i][1]), dict(item=[items[i][0], items[i][1], items[i][2]], index=i, explored=digests[i], processes=vals),
                          "fresh processes agree with each other but not with the explored 0-deviation run: the model of nondeterminism is incomplete")
    ctx.sample(dict(item=[items[0][0], items[0][1]], choice_points=res[0].get("points")))
    mx = max(range(len(res)), key=lambda k: len(res[k].get("points", [])))
    ctx.sample(dict(item=[items[mx][0], items[mx][1], repr(items[mx][2])[:200]], choice_points=res[mx].get("points"), runs=res[mx].get("runs")))
    ctx.assume("the deciding leg owns set-iteration order only; other cross-process channels are covered by the (sampling) seed leg",
               "choice points over more than 4 elements use transpositions + reversal instead of all permutations")


def replay(body):
    c = body["case"]
    if "alloc" in c:
        outs = _alloc_histories(c["alloc"])
        print("replay:", outs)
        return 1 if len(outs) != 1 else 0
    it = c["item"]
    item = (it[0], it[1], tuple(it[2]) if isinstance(it[2], list) else it[2])
    if it[0] == "fam":
        items = corpus("quick")
        item = items[c["index"]] if "index" in c and c["index"] < len(items) and items[c["index"]][1] == it[1] else item
    r = _explore((item, 1))
    print("replay:", r.get("error") or r["bad"] or "independent of iteration order", "choice points:", r.get("points"))
    return 1 if r.get("error") or r.get("nbad") else 0
