"""
C02 — ill-formed designs never yield a package or a netlist (engine E1 + single-fault mutation).

For every valid design of a base corpus drawn from the C01 families, every fault class of the statement is planted at
every site where it can occur; a mutant is kept only if the reference semantics calls it ill-formed for that reason.
Plus directly built scenarios: instantiation cycles of length 1..3 at any depth, unnamed modules, clashing module names.
Oracle: each of elaborate / to_proto / netlist (on separate fresh builds) raises.
"""

import io, importlib
from .. import mutate, refsem
from ..core import short_exc

BASE = [("f1_expr", 50), ("f2_portrefs", 300), ("f3_noconn", 80), ("f4_bundles", 8), ("f5_arrays", 22), ("f6_pairs", 20), ("f7_hier", 300), ("f9_multifeed", 60)]


def _base_one(item):
    """All classified mutants of one base design, each tried on the three entry points."""
    import hdl21 as h
    from ..build import build

    fname, desc = item
    mod = importlib.import_module(f"hv.families.{fname}")
    fam, design = mod.design(desc)
    try:
        refsem.R(design)
    except refsem.Invalid:
        return fam, None, []
    if refsem.derivation_cycle(design):
        return fam, None, []
    out = []
    muts = mutate.classified(design)
    for cls, site, d2, reason in muts:
        res = try_entries(d2)
        out.append((cls, site, reason, res, d2 if any(r == "returned" for r in res.values()) else None))
    return fam, len(muts), out


def try_entries(d2):
    import hdl21 as h
    from ..build import build

    res = {}
    for entry in ("elaborate", "to_proto", "netlist"):
        try:
            built = build(d2)
        except Exception as e:
            res[entry] = "raised@build"
            continue
        try:
            if entry == "elaborate":
                h.elaborate(built.top)
            elif entry == "to_proto":
                h.to_proto(built.top)
            else:
                h.netlist(built.top, io.StringIO(), fmt="spice")
            res[entry] = "returned"
        except Exception as e:
            res[entry] = "raised"
            if entry == "to_proto":
                # "they never return a package for such a design": not on a second attempt either
                try:
                    h.to_proto(built.top)
                    res["to_proto(2nd attempt)"] = "returned"
                except Exception:
                    pass
    return res


def _special(item):
    """Cycles, unnamed modules and module-name clashes, built directly (the spec builder builds children first)."""
    import hdl21 as h

    kind, n, depth, entry = item
    try:
        if kind == "cycle":
            mods = [h.Module(name=f"Cyc{k}") for k in range(n)]
            for k, m in enumerate(mods):
                m.p = h.Port()
            for k, m in enumerate(mods):
                m.add(mods[(k + 1) % n](p=m.p), name="child")
            top = mods[0]
        elif kind == "anon":
            leaf = h.Module() if n == 0 else h.Module(name="")  # never named / named with the empty string
            leaf.p = h.Port()
            top = leaf
        elif kind == "clash_parent_child":
            a = h.Module(name="Same")
            a.p = h.Port()
            for k in range(n):  # `n` differently named modules between the two of one name
                mid = h.Module(name=f"Between{k}")
                mid.p = h.Port()
                mid.ia = a(p=mid.p)
                a = mid
            top = h.Module(name="Same")
            top.p = h.Port()
            top.ia = a(p=top.p)
        elif kind == "clash_ext":
            # two different external modules under one qualified name: same port names, but one port wider (n=0), or the
            # same ports and another spice type (n=1)
            from hdl21.external_module import SpiceType

            e1 = h.ExternalModule(name="ext_same", domain="lib", port_list=[h.Port(name="p"), h.Port(name="n")], paramtype=dict)
            e2 = h.ExternalModule(name="ext_same", domain="lib", port_list=[h.Port(name="p"), h.Port(name="n", width=(2 if n == 0 else 1))], paramtype=dict,
                                  **({} if n == 0 else dict(spicetype=SpiceType.RESISTOR)))
            top = h.Module(name="ClashExtTop")
            top.s, top.t, top.w2 = h.Signal(), h.Signal(), h.Signal(width=2)
            top.u1 = e1(dict(k=1))(p=top.s, n=top.t)
            top.u2 = e2(dict(k=1))(p=top.s, n=(top.w2 if n == 0 else top.t))
            top.tie = h.R(r=1)(p=top.w2[0], n=top.w2[1])
        elif kind == "clash":
            a = h.Module(name="Same")
            a.p = h.Port()
            b = h.Module(name="Same")
            b.p = h.Port()
            b.q = h.Signal()
            top = h.Module(name="ClashTop")
            top.s = h.Signal()
            top.ia = a(p=top.s)
            top.ib = b(p=top.s)
        for d in range(depth):  # bury the fault under `depth` healthy levels
            w = h.Module(name=f"Wrap{kind}{n}{d}")
            w.s = h.Signal()
            if top.ports:
                w.add(top(p=w.s), name="inner")
            else:
                w.add(top(), name="inner")
            top = w
        def call():
            if entry == "elaborate":
                h.elaborate(top)
            elif entry == "to_proto":
                h.to_proto(top)
            else:
                h.netlist(top, io.StringIO(), fmt="spice")

    except Exception as e:
        return "harness: " + short_exc(e)
    outcomes = []
    for attempt in range(3):  # the same call again must not fare better
        try:
            call()
            outcomes.append("returned")
        except Exception:
            outcomes.append("raised")
    return "raised" if outcomes == ["raised"] * 3 else "returned on attempt " + str(outcomes.index("returned") + 1)


def run(ctx):
    items = []
    for fname, stride in BASE:
        mod = importlib.import_module(f"hv.families.{fname}")
        its = mod.items("quick")
        if not ctx.quick:
            stride = max(1, stride // 8)
        off = ctx.seed % stride
        sel = its[off::stride]
        ctx.fam(fname, base_designs_enumerated=len(sel))
        items += [(fname, d) for d in sel]
    ctx.extra["base_selection"] = "every k-th design of each family (k per family in checks/c02.py BASE, offset VERIF_SEED mod k); every classified mutant of each selected design"
    res = ctx.pmap(_base_one, items, chunk=4)
    for (fname, desc), (fam, nm, out) in zip(items, res):
        if nm is None:
            continue
        ctx.fam(fname, base_valid=1, mutants=nm)
        for cls, site, reason, r, d2 in out:
            ctx.count(states=1, transitions=6, traces_validated_against_impl=3)
            ctx.fam("class:" + cls, mutants=1)
            bad = [e for e, v in r.items() if v == "returned"]
            ctx.outcome(cls + ":" + ("returned" if bad else "raised"))
            if bad:
                ctx.violation(dict(fault=cls, reason=reason, family=fname, entries=",".join(sorted(bad))), dict(family=fam, fault=cls, site=site, design=d2), f"{bad} returned for a design that is ill-formed ({reason}) at {site}")
    specials = [(k, n, depth, e) for k, ns in (("cycle", (1, 2, 3)), ("anon", (0, 1)), ("clash", (0,)), ("clash_parent_child", (0, 1, 2)), ("clash_ext", (0, 1))) for n in ns for depth in (0, 1, 2) for e in ("elaborate", "to_proto", "netlist")]
    for sp in specials:
        r = _special(sp)
        ctx.count(states=1, transitions=2, traces_validated_against_impl=1)
        ctx.fam("special:" + sp[0], scenarios=1)
        ctx.outcome(sp[0] + ":" + r)
        if r != "raised" and not (sp[0].startswith("clash") and sp[3] == "elaborate"):
            ctx.violation(dict(fault=sp[0], reason=sp[0], family="special", entries=sp[3]), dict(special=list(sp)), f"{sp[3]} {r} for {sp[0]} (n={sp[1]}, depth={sp[2]})")
    if items:
        fam, d = importlib.import_module(f"hv.families.{items[0][0]}").design(items[0][1])
        ms = mutate.classified(d)
        if ms:
            ctx.sample(dict(base_family=fam, fault=ms[0][0], site=ms[0][1], design=ms[0][2]))
            ctx.sample(dict(base_family=fam, fault=ms[-1][0], site=ms[-1][1]))
    ctx.assume("a mutant is judged only if the reference semantics calls it ill-formed for the planted reason",
               "a module-name clash is only detectable at export: elaborate alone is not required to raise for it")


def replay(body):
    c = body["case"]
    if "design" in c:
        r = try_entries(c["design"])
    else:
        s = c["special"]
        r = {s[3]: _special(tuple(s))}
    print("replay:", r)
    return 1 if any(str(v).startswith("returned") for v in r.values()) else 0
