"""
C09 — generator calls are memoised and their modules uniquely named (E2 over parameter values x E3 over call orders).

For each parameter-class shape: all ordered pairs of values (including adversarial strings, numbers written differently,
values that push the readable name over its length limit); call forms (keywords / instance / from inside another
generator / handed on through a second generator); all permutations of up to 4 calls, each in a fresh generator cache;
a subset in fresh processes.
"""

import io, itertools, json, subprocess, sys, os
from ..core import short_exc, ROOT

# value alphabets per shape; every value is (label, python-expression evaluated in the worker)
SHAPES = {
    "two_str": dict(fields=[("a", "str"), ("b", "str")], values=[
        ("x b=y|z", dict(a="x b=y", b="z")), ("x|y b=z", dict(a="x", b="y b=z")), ("x|y", dict(a="x", b="y")), ("x y|", dict(a="x y", b="")), ("x|y ", dict(a="x", b="y ")),
        ("a.b|c", dict(a="a.b", b="c")), ("a|b.c", dict(a="a", b="b.c")), ("p(q|r)", dict(a="p(q", b="r)")), ("x-y|z", dict(a="x-y", b="z")), ("x+y|z", dict(a="x+y", b="z")),
        ("long1", dict(a="L" * 120, b="1")), ("long2", dict(a="L" * 120, b="2")), ("x_y|z", dict(a="x_y", b="z")), ("x|y_z", dict(a="x", b="y_z")), ("|", dict(a="", b="")),
        ("x=|y", dict(a="x=", b="y")), ("x|=y", dict(a="x", b="=y")),
    ]),
    "int_optfloat": dict(fields=[("a", "int"), ("b", "Optional[float]")], values=[
        ("1|None", dict(a=1, b=None)), ("1|1.0", dict(a=1, b=1.0)), ("1|1", dict(a=1, b=1)), ("-1|1.5", dict(a=-1, b=1.5)), ("1|2.5", dict(a=1, b=2.5)),
        ("1|-1.5", dict(a=1, b=-1.5)), ("11|None", dict(a=11, b=None)), ("-1|None", dict(a=-1, b=None)), ("-2|None", dict(a=-2, b=None)),  # hash(-1) == hash(-2) in CPython
         ("1|1e-9", dict(a=1, b=1e-9)), ("1|0.1", dict(a=1, b=0.1)),
    ]),
    "float_only": dict(fields=[("a", "float")], values=[("1.5", dict(a=1.5)), ("2.5", dict(a=2.5)), ("0.5", dict(a=0.5)), ("1", dict(a=1)), ("1.0", dict(a=1.0)), ("15", dict(a=15.0)),
        # floats that agree to six and more significant digits
        ("2.0", dict(a=2.0)), ("2.0000001", dict(a=2.0000001)), ("1e-11", dict(a=1e-11)), ("1.0000004e-11", dict(a=1.0000004e-11)), ("100000.0", dict(a=100000.0)), ("100000.4", dict(a=100000.4))]),
    "enum": dict(fields=[("e", "Enum")], values=[("A", dict(e="A")), ("B", dict(e="B"))]),
    "nested": dict(fields=[("inner", "Inner"), ("k", "int")], values=[
        ("(1,2)|3", dict(inner=(1, 2), k=3)), ("(1,23)|0", dict(inner=(1, 23), k=0)), ("(12,3)|0", dict(inner=(12, 3), k=0)), ("(1,2)|4", dict(inner=(1, 2), k=4)),
    ]),
    "prefixed": dict(fields=[("p", "Prefixed")], values=[
        ("1000m", dict(p=("1000", -3))), ("1U", dict(p=("1", 0))), ("1.000U", dict(p=("1.000", 0))), ("1n", dict(p=("1", -9))), ("0.001K", dict(p=("0.001", 3))),
        ("1.0000000000000000001", dict(p=("1.0000000000000000001", 0))), ("2U", dict(p=("2", 0))), ("-1U", dict(p=("-1", 0))), ("5m", dict(p=("5", -3))), ("-5m", dict(p=("-5", -3))), ("-0.005U", dict(p=("-0.005", 0))),
    ]),
    "scalar": dict(fields=[("s", "Scalar")], values=[("1", dict(s=1)), ("'1'", dict(s="1")), ("1.0", dict(s=1.0)), ("'w/5'", dict(s="w/5")), ("'w/6'", dict(s="w/6")), ("2", dict(s=2)), ("-2", dict(s=-2)), ("'-2.0'", dict(s="-2.0")),
        # literals whose text is what the name encoder emits for a number
        ("L0", dict(s=("lit", "0"))), ("0", dict(s=0)), ("L5e-3", dict(s=("lit", "5e-3"))), ("5m", dict(s=("pre", "5", -3))), ("L-12e2", dict(s=("lit", "-12e2"))), ("-1200", dict(s=-1200)),
        ("Lw/5", dict(s=("lit", "w/5")))]),
    "optstr": dict(fields=[("a", "Optional[str]"), ("n", "Optional[int]")], values=[
        ("None|None", dict(a=None, n=None)), ("'None'|None", dict(a="None", n=None)), ("'none'|None", dict(a="none", n=None)), ("x|None", dict(a="x", n=None)),
        ("None|0", dict(a=None, n=0)), ("''|None", dict(a="", n=None)), ("'0'|None", dict(a="0", n=None)),
    ]),
    "fset": dict(fields=[("f", "FrozenSet[str]")], values=[
        ("abcd", dict(f=("alpha", "beta", "gamma", "delta"))), ("dcba", dict(f=("delta", "gamma", "beta", "alpha"))), ("abc", dict(f=("alpha", "beta", "gamma"))),
        ("abce", dict(f=("alpha", "beta", "gamma", "epsilon"))), ("empty", dict(f=())), ("a,b", dict(f=("a,b",))), ("a|b", dict(f=("a", "b"))),
    ]),
    "union": dict(fields=[("a", "Union[int,str]"), ("w", "int")], values=[
        ("5|1", dict(a=5, w=1)), ("'5'|1", dict(a="5", w=1)), ("'x'|1", dict(a="x", w=1)), ("6|1", dict(a=6, w=1)), ("'5 w=1'|1", dict(a="5 w=1", w=1)),
    ]),
    # a field whose declared type leaves the class of its value open: two param-classes with the same fields, an int-valued
    # Enum next to plain ints
    "classunion": dict(fields=[("p", "Union[Inner,Inner2,En2,int]")], values=[
        ("Inner(1,2)", dict(p=("Inner", 1, 2))), ("Inner2(1,2)", dict(p=("Inner2", 1, 2))), ("Inner(1,3)", dict(p=("Inner", 1, 3))),
        ("RED", dict(p=("En2", "RED"))), ("1", dict(p=1)), ("GREEN", dict(p=("En2", "GREEN"))), ("2", dict(p=2)),
    ]),
    # the same openness one level down, for the members of a sequence
    "classseq": dict(fields=[("t", "Tuple[Union[Inner,Inner2,En2,int],...]")], values=[
        ("[Inner(1,2)]", dict(t=(("Inner", 1, 2),))), ("[Inner2(1,2)]", dict(t=(("Inner2", 1, 2),))), ("[Inner(1,2),Inner(1,2)]", dict(t=(("Inner", 1, 2), ("Inner", 1, 2)))),
        ("[Inner(1,2),Inner2(1,2)]", dict(t=(("Inner", 1, 2), ("Inner2", 1, 2)))), ("[RED]", dict(t=(("En2", "RED"),))), ("[1]", dict(t=(1,))), ("[]", dict(t=())), ("[1,RED]", dict(t=(1, ("En2", "RED")))),
    ]),
    "classset": dict(fields=[("f", "FrozenSet[Union[Inner,Inner2,int]]")], values=[
        ("{Inner(1,2)}", dict(f=(("Inner", 1, 2),))), ("{Inner2(1,2)}", dict(f=(("Inner2", 1, 2),))), ("{Inner(1,2),Inner2(1,2)}", dict(f=(("Inner", 1, 2), ("Inner2", 1, 2)))),
        ("{Inner2(1,2),Inner(1,2)}", dict(f=(("Inner2", 1, 2), ("Inner", 1, 2)))), ("{1}", dict(f=(1,))), ("{}", dict(f=())),
    ]),
    "hdl": dict(fields=[("m", "Instantiable")], values=[("ModA", dict(m="ModA")), ("ModB", dict(m="ModB")), ("R1", dict(m="R1")), ("R2", dict(m="R2")), ("E1", dict(m="E1")), ("E2", dict(m="E2")),
        # calls of an external module with dict parameters: equal dicts written in different key orders, and a different one
        ("D1", dict(m="D1")), ("D1r", dict(m="D1r")), ("D2", dict(m="D2")),
        # an external module of the same name in another domain; two whose (name + readable parameters) concatenate alike
        ("E1x", dict(m="E1x")), ("S1", dict(m="S1")), ("S2", dict(m="S2"))]),
}


def make_env():
    """Fresh generator machinery for one scenario: param-classes, generators with body counters, helper objects."""
    import enum
    from typing import Optional, FrozenSet, Union, Tuple
    import hdl21 as h
    from hdl21.prefix import Prefix
    from decimal import Decimal

    h.generator.cache.reset()
    env = dict(counts={})

    class En(enum.Enum):
        A = "A"
        B = "B"

    @h.paramclass
    class Inner:
        u = h.Param(dtype=int, desc="u")
        v = h.Param(dtype=int, desc="v")

    class En2(enum.Enum):
        RED = 1
        GREEN = 2

    @h.paramclass
    class Inner2:
        u = h.Param(dtype=int, desc="u")
        v = h.Param(dtype=int, desc="v")

    def pc(fields):
        ns = {}
        for n, t in fields:
            dt = {"str": str, "int": int, "Optional[float]": Optional[float], "float": float, "Enum": En, "Inner": Inner, "Prefixed": h.Prefixed,
                  "Scalar": h.Scalar, "Instantiable": h.Instantiable, "Optional[str]": Optional[str], "Optional[int]": Optional[int], "FrozenSet[str]": FrozenSet[str], "Union[int,str]": Union[int, str],
                  "Union[Inner,Inner2,En2,int]": Union[Inner, Inner2, En2, int], "Tuple[Union[Inner,Inner2,En2,int],...]": Tuple[Union[Inner, Inner2, En2, int], ...],
                  "FrozenSet[Union[Inner,Inner2,int]]": FrozenSet[Union[Inner, Inner2, int]]}[t]
            ns[n] = h.Param(dtype=dt, desc=n)
        return h.paramclass(type("P", (), ns))

    modA = h.Module(name="ModA")
    modA.x = h.Port()
    modB = h.Module(name="ModB")
    modB.x = h.Port()
    modA2 = h.Module(name="ModA")  # a different module with the same name
    modA2.x = h.Port()
    modA2.y = h.Signal()
    @h.paramclass
    class EP:
        k = h.Param(dtype=int, desc="k")

    ext = h.ExternalModule(name="Ext", port_list=[h.Port(name="x")], paramtype=EP, domain="hv")
    extd = h.ExternalModule(name="ExtD", port_list=[h.Port(name="x")], paramtype=dict, domain="hv")
    ext_other = h.ExternalModule(name="Ext", port_list=[h.Port(name="x")], paramtype=EP, domain="another_pdk")

    @h.paramclass
    class PXY:
        xy = h.Param(dtype=int, desc="xy", default=0)

    @h.paramclass
    class PY:
        y = h.Param(dtype=int, desc="y", default=0)

    ext_s1 = h.ExternalModule(name="Sep", port_list=[h.Port(name="x")], paramtype=PXY, domain="hv")
    ext_s2 = h.ExternalModule(name="Sepx", port_list=[h.Port(name="x")], paramtype=PY, domain="hv")
    objs = dict(ModA=modA, ModB=modB, R1=h.R(r=1), R2=h.R(r=2), E1=ext(k=1), E2=ext(k=2), E1x=ext_other(k=1), S1=ext_s1(xy=1), S2=ext_s2(y=1),
                D1=extd(dict(w=1, l=2, m=3)), D1r=extd(dict(m=3, l=2, w=1)), D2=extd(dict(w=1, l=2, m=4)))

    def conv(shape, kw):
        out = {}
        for (n, t) in SHAPES[shape]["fields"]:
            v = kw[n]
            if t == "Enum":
                v = En[v]
            elif t == "Inner":
                v = Inner(u=v[0], v=v[1])
            elif t == "Union[Inner,Inner2,En2,int]" and isinstance(v, tuple):
                v = Inner(u=v[1], v=v[2]) if v[0] == "Inner" else Inner2(u=v[1], v=v[2]) if v[0] == "Inner2" else En2[v[1]]
            elif t == "FrozenSet[Union[Inner,Inner2,int]]":
                v = frozenset((Inner(u=e[1], v=e[2]) if e[0] == "Inner" else Inner2(u=e[1], v=e[2])) if isinstance(e, tuple) else e for e in v)
            elif t == "Tuple[Union[Inner,Inner2,En2,int],...]":
                v = tuple((Inner(u=e[1], v=e[2]) if e[0] == "Inner" else Inner2(u=e[1], v=e[2]) if e[0] == "Inner2" else En2[e[1]]) if isinstance(e, tuple) else e for e in v)
            elif t == "Prefixed":
                v = h.Prefixed(number=Decimal(v[0]), prefix=Prefix.from_exp(v[1]))
            elif t == "Instantiable":
                v = objs[v]
            elif t == "FrozenSet[str]":
                v = frozenset(v)
            elif t == "Scalar" and isinstance(v, tuple):
                v = h.Literal(v[1]) if v[0] == "lit" else h.Prefixed(number=Decimal(v[1]), prefix=Prefix.from_exp(v[2]))
            out[n] = v
        return out

    gens = {}
    for shape, sd in SHAPES.items():
        P = pc(sd["fields"])
        env["counts"][shape] = 0

        def mk(shape=shape, P=P):
            def Gen(p: P) -> h.Module:
                env["counts"][shape] += 1
                m = h.Module()
                m.x = h.Port()
                m.r = h.R(r=1)(p=m.x, n=m.x)
                return m

            Gen.__name__ = "Gen_" + shape
            g = h.generator(Gen)

            def Outer(p: P) -> h.Module:  # hands the inner generator's module on unchanged
                return g(p)

            Outer.__name__ = "Outer_" + shape
            return P, g, h.generator(Outer)

        gens[shape] = mk()
    env.update(gens=gens, conv=conv, h=h)
    return env


def export_names(h, mods):
    """to_proto names and spice sub-circuit names of a parent instantiating every module in `mods`."""
    import vlsirtools

    top = h.Module(name="NameTop")
    top.s = h.Signal()
    for k, m in enumerate(mods):
        top.add(m(x=top.s), name=f"i{k}")
    pkg = h.to_proto(top)
    names = [m.name for m in pkg.modules]
    s = io.StringIO()
    vlsirtools.netlist(pkg=pkg, dest=s, fmt="spice")
    subckts = [ln.split()[1] for ln in s.getvalue().splitlines() if ln.upper().startswith(".SUBCKT")]
    return names, subckts


def _pair(item):
    """One ordered pair of values of one shape: memoisation + name distinctness."""
    shape, ia, ib, form = item
    env = make_env()
    h = env["h"]
    P, g, outer = env["gens"][shape]
    va, vb = SHAPES[shape]["values"][ia][1], SHAPES[shape]["values"][ib][1]
    bad = []
    try:
        ka, kb = env["conv"](shape, va), env["conv"](shape, vb)
        pa, pb = P(**ka), P(**kb)
        equal = pa == pb

        def call(kw, p):
            if form == "kw":
                return g(**kw)
            if form == "inst":
                return g(p)
            if form == "outer":
                return outer(p)
            raise ValueError(form)

        ma = call(ka, pa)
        mb = call(kb, pb)
        ma2 = g(pa)  # and once more, directly
        n = env["counts"][shape]
        if ma2 is not ma:
            bad.append(("memo", f"same parameters, different call form ({form} vs instance) gave a different Module"))
        if equal:
            if ma is not mb:
                bad.append(("memo", "equal parameters returned two different Modules"))
            if n != 1:
                bad.append(("memo", f"body ran {n} times for equal parameters"))
        else:
            if ma is mb:
                bad.append(("distinct", "unequal parameters returned the same Module"))
            elif ma.name == mb.name:
                bad.append(("name_clash", f"two different generated modules share the name {ma.name!r}"))
            if n != 2:
                bad.append(("memo", f"body ran {n} times for two unequal parameter values"))
            if ma is not mb:
                try:
                    names, subckts = export_names(h, [ma, mb])
                    if len(set(names)) != len(names):
                        bad.append(("export_clash", f"package module names not distinct: {names}"))
                    if len(set(subckts)) != len(subckts):
                        bad.append(("netlist_clash", f"netlist sub-circuit names not distinct: {subckts}"))
                except Exception as e:
                    bad.append(("export_clash", "exporting a design with both raised: " + short_exc(e)))
        # the name does not depend on the call form or on who handed the module on
        env2 = make_env()
        P2, g2, outer2 = env2["gens"][shape]
        ref = g2(P2(**env2["conv"](shape, va)))
        if ref.name != ma.name:
            bad.append(("name_history", f"name {ma.name!r} via form {form}, {ref.name!r} when called directly in a fresh cache"))
    except Exception as e:
        bad.append(("raised", short_exc(e)))
    return bad


def _orders(item):
    """All permutations of a set of <=4 calls (direct and through the handing-on generator), each in a fresh cache:
    every value must get the same name whatever the order."""
    shape, idxs = item
    names_by_perm = {}
    bad = []
    calls = [(i, f) for i in idxs for f in ("direct", "outer")]
    for perm in itertools.permutations(calls):
        if len(names_by_perm) > 200:
            break
        env = make_env()
        P, g, outer = env["gens"][shape]
        got = {}
        try:
            for i, f in perm:
                p = P(**env["conv"](shape, SHAPES[shape]["values"][i][1]))
                m = g(p) if f == "direct" else outer(p)
                got.setdefault(i, set()).add(m.name)
            # names as they are at the end of the history
            final = {}
            for i in idxs:
                p = P(**env["conv"](shape, SHAPES[shape]["values"][i][1]))
                final[i] = g(p).name
        except Exception as e:
            bad.append(("raised", short_exc(e)))
            break
        names_by_perm[perm] = (tuple(sorted((i, tuple(sorted(s))) for i, s in got.items())), tuple(sorted(final.items())))
    vals = set(names_by_perm.values())
    if len(vals) > 1:
        v = sorted(vals)[:2]
        bad.append(("name_history", f"names depend on the call order: {v}"))
    for perm, (got, final) in names_by_perm.items():
        for i, s in got:
            if len(s) > 1:
                bad.append(("name_history", f"one module seen under two names: {s}"))
                break
    return bad, len(names_by_perm)


SUBPROC = r"""
import sys, json
sys.path.insert(0, %r)
from hv.checks import c09
env = c09.make_env()
out = {}
for shape in c09.SHAPES:
    P, g, outer = env["gens"][shape]
    for label, kw in c09.SHAPES[shape]["values"]:
        try:
            out[shape + ":" + label] = g(P(**env["conv"](shape, kw))).name
        except Exception as e:
            out[shape + ":" + label] = "raised " + type(e).__name__
print(json.dumps(out, sort_keys=True))
"""


def self_delegating(order):
    """A generator that normalises its parameters by handing on its *own* result for other parameters
    (`if p.n < 1: return Clamp(n=1)`): the Module keeps the name of the call that built it, in whatever order the calls
    are made, and repeated calls are memoised."""
    import hdl21 as h

    h.generator.cache.reset()
    runs = []

    @h.paramclass
    class CP:
        n = h.Param(dtype=int, desc="n", default=1)

    @h.generator
    def Clamp(p: CP) -> h.Module:
        runs.append(p.n)
        if p.n < 1:
            return Clamp(n=1)
        m = h.Module()
        m.x = h.Port()
        m.r = h.R(r=p.n)(p=m.x, n=m.x)
        return m

    try:
        mods = {n: Clamp(n=n) for n in order}
        again = {n: Clamp(CP(n=n)) for n in reversed(order)}
        if any(again[n] is not mods[n] for n in order):
            return "repeated calls are not memoised"
        low = [mods[n] for n in order if n < 1]
        if 1 in mods and any(m is not mods[1] for m in low):
            return "a clamped call did not hand on the Module of the call it delegates to"
        names = sorted({m.name for n, m in mods.items() if n <= 1})
        if names != ["Clamp(n=1)"]:
            return f"the Module built by Clamp(n=1) is called {names} after the calls {list(order)}"
        if 2 in mods and mods[2].name != "Clamp(n=2)":
            return f"Clamp(n=2) is called {mods[2].name!r}"
        if sorted(set(runs)) != sorted(set(order) | ({1} if low else set())) or len(runs) != len(set(runs)):
            return f"the body ran for {runs} during the calls {list(order)}"
    except Exception as e:
        return "raised: " + short_exc(e)
    return None


def two_files(order):
    """Same-named generators and modules defined in two source files with the same base name, used in the given order
    (fresh process; see c09_twofiles.py)."""
    script = os.path.join(os.path.dirname(__file__), "c09_twofiles.py")
    r = subprocess.run([sys.executable, "-W", "ignore", script] + list(order), capture_output=True, text=True, env=dict(os.environ), timeout=300)
    last = r.stdout.strip().splitlines()[-1] if r.stdout.strip() else ""
    try:
        return json.loads(last)
    except Exception:
        return {"process": "failed: " + r.stderr[-300:]}


def judge_two_files(tf):
    vals = list(tf.values())
    if any("process" in v for v in vals):
        return "scenario process failed: " + str(vals)
    if vals[0] != vals[1]:
        return f"exported names depend on which library was used first: {vals}"
    for lib, other in (("liba", "libb"), ("libb", "liba")):
        names = vals[0][lib]
        if any(other + "." in n for n in names) or not all((lib + ".") in n for n in names if "Top_" not in n):
            return f"modules defined in {lib}/amps.py are exported as {names}"
    gv = vals[0].get("generator_valued", {})
    if not gv.get("distinct_modules") or gv.get("liba") == gv.get("libb"):
        return f"a generator given liba's and libb's same-named generator as its parameter value: {gv}"
    if set(vals[0]["liba"]) & set(vals[0]["libb"]):
        return f"two different generated modules share an export name: {sorted(set(vals[0]['liba']) & set(vals[0]['libb']))}"
    return None


def set_orders():
    """Engine E4 on the naming of set-valued parameters: a frozenset whose iteration order is dictated (every
    permutation of its elements) goes through the real name encoder; the name text must not depend on that order.
    Element menus: strings, Enum members, param-class instances of two classes, mixed kinds with None."""
    import enum, itertools, json
    import hdl21 as h
    from hdl21.params import hdl21_naming_encoder, _unique_name

    class Ord(frozenset):
        def __new__(cls, order):
            o = super().__new__(cls, order)
            o._order = list(order)
            return o

        def __iter__(self):
            return iter(self._order)

    class Corner(enum.Enum):
        TT, FF, SS = "tt", "ff", "ss"

    @h.paramclass
    class PA:
        w = h.Param(dtype=int, desc="w", default=1)

    @h.paramclass
    class PB:
        w = h.Param(dtype=int, desc="w", default=1)

    @h.paramclass
    class Holder:
        f = h.Param(dtype=object, desc="a set", default=None)

    menus = {"strings": ["b", "a", "c"], "enums": [Corner.TT, Corner.FF, Corner.SS], "paramclasses": [PA(w=1), PB(w=1), PA(w=2)], "mixed": [None, "a", 1]}
    out = []
    n = 0
    for mname, elems in menus.items():
        texts, names = set(), set()
        for perm in itertools.permutations(elems):
            n += 1
            try:
                texts.add(json.dumps(Ord(perm), default=hdl21_naming_encoder, sort_keys=True))
                hp = Holder()
                object.__setattr__(hp, "f", Ord(perm))
                names.add(_unique_name(hp))
            except Exception as e:
                out.append((mname, "naming a set raised: " + short_exc(e)))
                break
        if len(texts) > 1 or len(names) > 1:
            out.append((mname, f"one set of {mname}, iterated in another order, is named differently: {sorted(names)[:2]}"))
    return n, out


def run(ctx):
    n_orders, bad_orders = set_orders()
    ctx.count(states=n_orders, transitions=n_orders, traces_validated_against_impl=n_orders)
    ctx.fam("set_iteration_orders", cases=n_orders)
    for mname, what in bad_orders:
        ctx.violation(dict(shape="set:" + mname, kind="order_dependent_name", form="-"), dict(set_orders=mname), what)
    items = []
    for shape, sd in SHAPES.items():
        n = len(sd["values"])
        for ia in range(n):
            for ib in range(n):
                for form in ("kw", "inst", "outer"):
                    items.append((shape, ia, ib, form))
    res = ctx.pmap(_pair, items, chunk=20)
    for it, bad in zip(items, res):
        ctx.count(states=1, transitions=4, traces_validated_against_impl=1)
        ctx.fam("pairs:" + it[0], cases=1)
        ctx.outcome("pair:" + (bad[0][0] if bad else "ok"))
        for kind, msg in bad:
            la, lb = SHAPES[it[0]]["values"][it[1]][0], SHAPES[it[0]]["values"][it[2]][0]
            ctx.violation(dict(kind=kind, shape=it[0], form=it[3] if kind in ("name_history", "memo") else "-"), dict(shape=it[0], a=la, b=lb, form=it[3]), msg)
    # call orders
    oitems = []
    for shape, sd in SHAPES.items():
        n = len(sd["values"])
        combos = list(itertools.combinations(range(n), 2))
        if ctx.quick:
            combos = combos[: 6]
        oitems += [(shape, c) for c in combos]
    res = ctx.pmap(_orders, oitems, chunk=2)
    for it, (bad, nperm) in zip(oitems, res):
        ctx.count(states=nperm, transitions=nperm * 4, traces_validated_against_impl=nperm)
        ctx.fam("orders:" + it[0], histories=nperm)
        ctx.outcome("orders:" + (bad[0][0] if bad else "ok"))
        for kind, msg in bad[:1]:
            ctx.violation(dict(kind=kind, shape=it[0], form="orders"), dict(shape=it[0], values=[SHAPES[it[0]]["values"][i][0] for i in it[1]]), msg)
    # fresh processes with different hash seeds: the names must not depend on process or addresses
    outs = []
    for seed in ("0", "1", "12345"):
        env = dict(os.environ, PYTHONHASHSEED=seed)
        r = subprocess.run([sys.executable, "-W", "ignore", "-c", SUBPROC % str(ROOT)], capture_output=True, text=True, env=env, timeout=300)
        outs.append(r.stdout.strip().splitlines()[-1] if r.stdout.strip() else "ERR " + r.stderr[-300:])
        ctx.count(states=1, transitions=1, traces_validated_against_impl=1)
    ctx.fam("fresh_processes", runs=len(outs))
    if len(set(outs)) != 1:
        ctx.violation(dict(kind="name_process", shape="*", form="-"), dict(outputs=outs), "generated names differ between processes")
    # a generator delegating to itself for clamped parameters, every order of four calls
    for order in itertools.permutations((1, 0, -3, 2)):
        bad = self_delegating(order)
        ctx.count(states=1, transitions=8, traces_validated_against_impl=1)
        ctx.fam("self_delegating_generator", orders=1)
        if bad:
            ctx.violation(dict(kind="name_history", shape="self_delegating", form="-"), dict(self_delegating=list(order)), bad)
    # same-named generators in two source files of the same base name: names carry their own package, in either use order
    tf = {" > ".join(o): two_files(o) for o in (["liba", "libb"], ["libb", "liba"])}
    ctx.count(states=2, transitions=4, traces_validated_against_impl=2)
    ctx.fam("two_source_files", runs=2)
    bad = judge_two_files(tf)
    if bad:
        ctx.violation(dict(kind="name_source_file", shape="*", form="-"), dict(two_files=True, results=tf), bad)
    ctx.sample(dict(shape="two_str", a="x b=y|z", b="x|y b=z", form="kw"))
    ctx.sample(dict(shape="hdl", values=["ModA", "ModA2"], form="outer"))
    ctx.assume("parameter equality (==) of the param-class instances decides which calls must share a Module",
               "excluded as grey: two different Modules with one qualified name as parameter values (itself an ill-formed design), external-module calls with unhashable dict parameters as generator parameters")


def replay(body):
    if "set_orders" in body.get("case", {}):
        n, bad = set_orders()
        print("replay:", bad or "holds")
        return 1 if bad else 0
    c = body["case"]
    if c.get("self_delegating"):
        bad = self_delegating(tuple(c["self_delegating"]))
        print("replay:", bad or "holds")
        return 1 if bad else 0
    if c.get("two_files"):
        bad = judge_two_files({k: two_files(k.split(" > ")) for k in c["results"]})
        print("replay:", bad or "holds")
        return 1 if bad else 0
    if "a" in c:
        labels = [v[0] for v in SHAPES[c["shape"]]["values"]]
        bad = _pair((c["shape"], labels.index(c["a"]), labels.index(c["b"]), c["form"]))
    elif "values" in c:
        labels = [v[0] for v in SHAPES[c["shape"]]["values"]]
        bad, _ = _orders((c["shape"], tuple(labels.index(x) for x in c["values"])))
    else:
        bad = ["process-dependent names: re-run the check"]
    print("replay:", bad or "holds")
    return 1 if bad else 0
