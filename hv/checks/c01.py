"""C01 — elaboration and export preserve the connectivity the designer wrote (engine E1)."""

import importlib
from .. import harness, refsem
from ..core import sha

FAMILIES = ["f1_expr"]


def _one(item):
    fam, design = item
    return harness.check_valid(design)


def signature(fam, res):
    s = {"kind": res["kind"], "family": fam.split("/")[0]}
    if res["kind"] == "rejected_valid":
        s["stage"] = res["stage"]
        s["exc_type"] = res["exc"].split(":")[0]
    return s


def run(ctx):
    items = []
    for f in FAMILIES:
        mod = importlib.import_module(f"hv.families.{f}")
        fam_items = mod.family(ctx.tier)
        ctx.fam(f, designs=len(fam_items))
        items += fam_items
    results = ctx.pmap(_one, items)
    for (fam, design), res in zip(items, results):
        ctx.count(states=1, transitions=3, traces_validated_against_impl=1)
        if res is None:
            ctx.outcome("agree:" + fam)
            continue
        ctx.outcome(res["kind"] + ":" + fam)
        ctx.violation(signature(fam, res), dict(family=fam, design=design), res)
    for k in (0, len(items) // 2, len(items) - 1):
        ctx.sample(dict(family=items[k][0], design=items[k][1]))
    ctx.assume("vlsirtools netlisters are the trusted reading of a package", "claims hold up to the family bounds listed under coverage.families")


def replay(body):
    case = body["case"]
    res = harness.check_valid(case["design"])
    print("replay result:", res)
    return 1 if res else 0
