"""C01 — elaboration and export preserve the connectivity the designer wrote (engine E1)."""

import importlib
from .. import harness, refsem
from ..core import sha

FAMILIES = ["f1_expr", "f2_portrefs", "f3_noconn", "f5_arrays", "f4_bundles", "f6_pairs", "f7_hier", "f9_multifeed"]


def _one(item):
    fname, desc = item
    mod = importlib.import_module(f"hv.families.{fname}")
    fam, design = mod.design(desc)
    res = harness.check_valid(design, allow_invalid=True)
    if res is None or isinstance(res, str):
        return fam, res, None
    return fam, res, design


def signature(fam, res):
    s = {"kind": res["kind"], "family": fam.split("/")[0]}
    if res["kind"] == "rejected_valid":
        s["stage"] = res["stage"]
        s["exc_type"] = res["exc"].split(":")[0]
    return s


def run_families(ctx, families, one=_one):
    items = []
    for f in families:
        mod = importlib.import_module(f"hv.families.{f}")
        its = mod.items(ctx.tier)
        ctx.fam(f, enumerated=len(its))
        items += [(f, d) for d in its]
    results = ctx.pmap(one, items)
    first = {}
    for (fname, desc), (fam, res, design) in zip(items, results):
        if res == "skip":
            ctx.fam(fname, invalid_by_reference=1)
            continue
        ctx.count(states=1, transitions=3, traces_validated_against_impl=1)
        ctx.fam(fname, executed=1)
        if fname not in first:
            first[fname] = (fname, desc)
        if res == "grey_raised":
            ctx.fam(fname, grey_self_referential_raised=1)
            ctx.outcome("grey_raised:" + fam)
            continue
        if res is None:
            ctx.outcome("agree:" + fam)
            continue
        ctx.outcome(res["kind"] + ":" + fam)
        ctx.violation(signature(fam, res), dict(family=fam, design=design), res)
    for fname, desc in first.values():
        mod = importlib.import_module(f"hv.families.{fname}")
        fam, design = mod.design(desc)
        ctx.sample(dict(family=fam, design=design), limit=12)
    return items, results


def run(ctx):
    run_families(ctx, FAMILIES)
    ctx.assume("vlsirtools netlisters are the trusted reading of a package", "claims hold up to the family bounds listed under coverage.families")


def replay(body):
    case = body["case"]
    res = harness.check_valid(case["design"])
    print("replay result:", res)
    return 1 if res else 0
