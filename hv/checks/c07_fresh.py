"""
C07 reference, run as a script in a pristine process: `python -m hv.checks.c07_fresh <dag> <top>` prints the serialized package
(hex) of a history-free build of that one module - nothing was built, elaborated or exported in the process before.
"""

import sys


def main(dname, top):
    import hdl21 as h
    from hv.families import dags
    from hv.build import build

    built = build(dags.ALL[dname]())
    sys.stdout.write(h.to_proto(built.modules[top]).SerializeToString(deterministic=True).hex() + "\n")


if __name__ == "__main__":
    main(sys.argv[1], sys.argv[2])
