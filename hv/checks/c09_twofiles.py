"""
C09 scenario, run as a script in a fresh process: `python c09_twofiles.py liba libb` (the order of use).

Two design libraries, liba/amps.py and libb/amps.py - the same file name in different packages - each define a generator
`Amp` and a module `Bias`.  Prints {library: sorted exported module names} as JSON.
"""

import sys, json, tempfile, pathlib, importlib, shutil

SRC = """
import hdl21 as h

@h.paramclass
class P:
    w = h.Param(dtype=int, desc="width", default=1)

@h.generator
def Amp(p: P) -> h.Module:
    m = h.Module()
    m.inp, m.out = h.Input(), h.Output()
    m.r = h.R(r=GAIN * p.w)(p=m.inp, n=m.out)
    return m

@h.module
class Bias:
    vss = h.Port()
"""


def main(order):
    import hdl21 as h

    tmp = pathlib.Path(tempfile.mkdtemp(prefix="hv_c09_"))
    try:
        for lib, gain in (("liba", 1), ("libb", 1000)):
            (tmp / lib).mkdir()
            (tmp / lib / "__init__.py").write_text("")
            (tmp / lib / "amps.py").write_text(f"GAIN = {gain}\n" + SRC)
        sys.path.insert(0, str(tmp))
        out = {}

        @h.paramclass
        class PG:
            g = h.Param(dtype=h.Generator, desc="a generator")

        @h.generator
        def UsesGen(p: PG) -> h.Module:
            m = h.Module()
            m.a, m.b = h.Signals(2)
            m.i = p.g(w=1)(inp=m.a, out=m.b)
            return m

        uses = {}
        for lib in order:
            mod = importlib.import_module(lib + ".amps")
            top = h.Module(name="Top_" + lib)
            top.a, top.b = h.Signals(2)
            top.x = mod.Amp(w=2)(inp=top.a, out=top.b)
            top.y = mod.Bias(vss=top.a)
            out[lib] = sorted(m.name for m in h.to_proto(top).modules)
            # the library's generator as a *parameter value* of another generator
            uses[lib] = UsesGen(g=mod.Amp)
        out["generator_valued"] = {lib: u.name for lib, u in sorted(uses.items())}
        out["generator_valued"]["distinct_modules"] = uses["liba"] is not uses["libb"]
    finally:
        shutil.rmtree(tmp, ignore_errors=True)
    print(json.dumps(out, sort_keys=True))


if __name__ == "__main__":
    main(sys.argv[1:])
