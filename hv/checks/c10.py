"""
C10 — bundle ports flatten to the documented names, directions and visibility (engine E2: exhaustive enumeration of bundle
definition trees).

Families: flat bundles with 1..3 leaves over every assignment of leaf kinds; chains of depth 2 and 3 (one leaf per level)
over leaf kind x flip (none / constructor flag / flipped()) x role at every level; fan-out trees (root with 2..3 sub-bundles);
each as a port and as an internal instance, with every instance role.  Oracle: a 20-line reference flattener.
"""

import itertools
from ..core import short_exc

LEAF_KINDS = ["in", "out", "inout", "port", "role_hd", "role_dh", "plain", "src_h", "dest_d", "role_hh"]  # src_h, dest_d declare one role only; role_hh one role twice (a loop-back line: source first)
DEEP_KINDS = ["in", "out", "role_hd", "plain", "dest_d"]
FLIPS = ["no", "ctor", "fn"]
TOP_FLIPS = ["no", "ctor", "fn", "fn_of_ctor", "fn_of_fn"]  # flipped() of an already flipped instance un-flips it
NET_FLIP = {"no": 0, "ctor": 1, "fn": 1, "fn_of_ctor": 0, "fn_of_fn": 0}
ROLES = [None, "HOST", "DEVICE", "OTHER"]


# ------------------------------------------------------------------------------------------------ reference flattener
def ref_flatten(tree, inst_name, is_port, inst_flip, inst_role):
    """tree = {"leaves": [(name, kind, width)], "subs": [(name, subtree, flip, role)]}
    -> {flat name: (width, direction or None-for-internal)}"""
    out = {}

    def go(t, path, flips, role):
        for name, kind, width in t["leaves"]:
            if not is_port:
                d = None
            elif kind in ("in", "out", "inout", "port"):
                d = {"in": "INPUT", "out": "OUTPUT", "inout": "INOUT", "port": "NONE"}[kind]
                if flips % 2 == 1:
                    d = {"INPUT": "OUTPUT", "OUTPUT": "INPUT"}.get(d, d)
            elif kind in ("role_hd", "role_dh", "src_h", "dest_d", "role_hh"):
                src, dest = {"role_hd": ("HOST", "DEVICE"), "role_dh": ("DEVICE", "HOST"), "src_h": ("HOST", None), "dest_d": (None, "DEVICE"), "role_hh": ("HOST", "HOST")}[kind]
                d = "OUTPUT" if role and role == src else "INPUT" if role and role == dest else "NONE"
            else:
                d = "NONE"
            out["_".join([inst_name] + path + [name])] = (width, d)
        for name, sub, flip, srole in t["subs"]:
            go(sub, path + [name], flips + NET_FLIP[flip], srole)

    go(tree, [], NET_FLIP[inst_flip], inst_role)
    return out


# ------------------------------------------------------------------------------------------------ real construction
def build_bundle(h, tree, counter, inline_roles=False):
    from hdl21.role import RoleSet

    counter[0] += 1
    if inline_roles == "unnamed":
        return build_bundle_unnamed(h, tree, counter)
    if inline_roles:
        return build_bundle_inline(h, tree, counter)
    b = h.Bundle(name=f"B{counter[0]}")
    b.roles = RoleSet.from_names(["HOST", "DEVICE", "OTHER"])
    for name, kind, width in tree["leaves"]:
        if kind == "in":
            s = h.Input(width=width)
        elif kind == "out":
            s = h.Output(width=width)
        elif kind == "inout":
            s = h.Inout(width=width)
        elif kind == "port":
            s = h.Port(width=width)
        elif kind == "role_hd":
            s = h.Signal(width=width, src=b.roles.HOST, dest=b.roles.DEVICE)
        elif kind == "role_dh":
            s = h.Signal(width=width, src=b.roles.DEVICE, dest=b.roles.HOST)
        elif kind == "role_hh":
            s = h.Signal(width=width, src=b.roles.HOST, dest=b.roles.HOST)
        elif kind == "src_h":
            s = h.Signal(width=width, src=b.roles.HOST)
        elif kind == "dest_d":
            s = h.Signal(width=width, dest=b.roles.DEVICE)
        else:
            s = h.Signal(width=width)
        setattr(b, name, s)
    for name, sub, flip, srole in tree["subs"]:
        sb = build_bundle(h, sub, counter)
        kw = {}
        if srole:
            kw["role"] = getattr(sb.roles, srole)
        if name in ("s", "s1"):
            kw["port"] = True  # a sub-bundle *instance* flagged as a port: port-ness is decided by the outermost instance alone
        inst = mk_flipped(h, sb, flip, kw)
        setattr(b, name, inst)
    return b


UNNAMED_ROLES = {}  # id(bundle) -> {"HOST": Role, ...} for bundles built with `h.Roles(n)` objects that are never named


def build_bundle_unnamed(h, tree, counter):
    """The same definition built procedurally with role objects straight from `HOST, DEVICE, OTHER = h.Roles(3)`: they
    have no names; which is which is a matter of the objects."""
    host, device, other = h.Roles(3) if counter[0] % 2 else 3 * h.Role()  # both spellings of "three new roles"
    b = h.Bundle(name=f"B{counter[0]}")
    UNNAMED_ROLES[id(b)] = {"HOST": host, "DEVICE": device, "OTHER": other}
    for name, kind, width in tree["leaves"]:
        if kind in ("in", "out", "inout", "port"):
            sg = {"in": h.Input, "out": h.Output, "inout": h.Inout, "port": h.Port}[kind](width=width)
        else:
            src, dest = {"role_hd": (host, device), "role_dh": (device, host), "src_h": (host, None), "dest_d": (None, device), "plain": (None, None), "role_hh": (host, host)}[kind]
            sg = h.Signal(width=width, src=src, dest=dest)
        setattr(b, name, sg)
    for name, sub, flip, srole in tree["subs"]:
        sb = build_bundle(h, sub, counter, inline_roles="unnamed")
        kw = {}
        if srole:
            kw["role"] = UNNAMED_ROLES[id(sb)][srole]
        setattr(b, name, mk_flipped(h, sb, flip, kw))
    return b


def build_bundle_inline(h, tree, counter):
    """The same definition written as a class body whose roles are declared in-line: HOST, DEVICE, OTHER = h.Roles(3)."""
    host, device, other = h.Roles(3)
    ns = {"HOST": host, "DEVICE": device, "OTHER": other}
    for name, kind, width in tree["leaves"]:
        if kind in ("in", "out", "inout", "port"):
            ns[name] = {"in": h.Input, "out": h.Output, "inout": h.Inout, "port": h.Port}[kind](width=width)
        elif kind == "role_hd":
            ns[name] = h.Signal(width=width, src=host, dest=device)
        elif kind == "role_dh":
            ns[name] = h.Signal(width=width, src=device, dest=host)
        elif kind == "role_hh":
            ns[name] = h.Signal(width=width, src=host, dest=host)
        elif kind == "src_h":
            ns[name] = h.Signal(width=width, src=host)
        elif kind == "dest_d":
            ns[name] = h.Signal(width=width, dest=device)
        else:
            ns[name] = h.Signal(width=width)
    for name, sub, flip, srole in tree["subs"]:
        sb = build_bundle(h, sub, counter, inline_roles=True)
        kw = {}
        if srole:
            kw["role"] = getattr(sb.roles, srole)
        ns[name] = mk_flipped(h, sb, flip, kw)
    return h.bundle(type(f"B{counter[0]}", (), ns))


def mk_flipped(h, b, flip, kw):
    if flip == "ctor":
        return b(flipped=True, **kw)
    if flip == "fn":
        return h.flipped(b(**kw))
    if flip == "fn_of_ctor":
        return h.flipped(b(flipped=True, **kw))
    if flip == "fn_of_fn":
        return h.flipped(h.flipped(b(**kw)))
    return b(**kw)


def _one(item):
    import hdl21 as h

    tree, is_port, inst_flip, inst_role, style = item
    want = ref_flatten(tree, "bb", is_port, inst_flip, inst_role)
    try:
        # class-style cases also declare their bundles as class bodies with in-line roles, instead of through a RoleSet
        b = build_bundle(h, tree, [0], inline_roles=("unnamed" if style == "unnamed" else style == "class"))
        if style == "shared":
            # every leaf and sub-bundle instance of the definition is *also* stored in another Bundle definition, under
            # another name (one object shared by two definitions): the members of `b` are still the names `b` holds them under
            decoy = h.Bundle(name="Decoy")
            for k_, (mname, mobj) in enumerate(list(b.namespace.items())):
                setattr(decoy, f"zz{k_}", mobj)
        kw = dict(port=is_port)
        if inst_role:
            # the bundle's own Role object, or (procedural style) an equal one made elsewhere: roles compare by name
            kw["role"] = UNNAMED_ROLES[id(b)][inst_role] if style == "unnamed" else getattr(b.roles, inst_role) if style == "class" else h.Role(name=inst_role)
        bi = mk_flipped(h, b, inst_flip, kw)
        if style == "class":
            m = h.module(type("Subj", (), {"bb": bi, "zz": h.Signal()}))
        else:
            m = h.Module(name="Subj")
            m.zz = h.Signal()
            m.bb = bi
        pkg = h.to_proto(m)
    except Exception as e:
        return "raised: " + short_exc(e)
    pm = pkg.modules[-1]
    sigs = {s.name: s.width for s in pm.signals}
    import vlsir.circuit_pb2 as vckt

    ports = {p.signal: vckt.Port.Direction.Name(p.direction) for p in pm.ports}
    for name, (w, d) in want.items():
        if sigs.get(name) != w:
            return f"member signal {name!r}: width {sigs.get(name)!r}, documented {w}"
        if d is None:
            if name in ports:
                return f"leaf {name!r} of a non-port bundle instance is a port"
        else:
            if name not in ports:
                return f"leaf {name!r} of a bundle port is not a port"
            if ports[name] != d:
                return f"port {name!r}: direction {ports[name]}, documented {d}"
    extra = set(sigs) - set(want) - {"zz"}
    if extra:
        return f"unexpected signals {sorted(extra)}"
    if set(ports) - set(want):
        return f"unexpected ports {sorted(set(ports) - set(want))}"
    return ("ok", tuple(sorted((n, w, d) for n, (w, d) in want.items())))


def flat_trees():
    for n in (1, 2, 3):
        for kinds in itertools.product(LEAF_KINDS, repeat=n):
            yield {"leaves": [(f"m{k}", kind, 1 + (k % 2)) for k, kind in enumerate(kinds)], "subs": []}


def chain_trees(depth, thorough):
    """root(leaf k1) -> s(leaf k2) [-> t(leaf k3)] with a flip and a role at every level."""
    lv2 = [(k, f, r) for k in DEEP_KINDS for f in FLIPS + ["fn_of_fn"] for r in (None, "HOST", "DEVICE")]
    lv3 = [(k, f, r) for k in DEEP_KINDS for f in FLIPS for r in ((None, "HOST", "DEVICE") if thorough else (None, "HOST"))]
    for k1 in LEAF_KINDS:
        for (k2, f2, r2) in lv2:
            if depth == 2:
                yield {"leaves": [("a", k1, 1)], "subs": [("s", {"leaves": [("b", k2, 2)], "subs": []}, f2, r2)]}
            else:
                for (k3, f3, r3) in lv3:
                    inner = {"leaves": [("c", k3, 1)], "subs": []}
                    yield {"leaves": [("a", k1, 1)], "subs": [("s", {"leaves": [("b", k2, 2)], "subs": [("t", inner, f3, r3)]}, f2, r2)]}


def fan_trees():
    """root with 2 or 3 sub-bundles, each single-leaf, every flip combination, mixed leaf kinds."""
    for n in (2, 3):
        for flips in itertools.product(FLIPS, repeat=n):
            for kinds in itertools.product(DEEP_KINDS, repeat=n):
                subs = [(f"s{k}", {"leaves": [("x", kinds[k], 1 + (k % 2))], "subs": []}, flips[k], ("HOST" if k == 0 else None)) for k in range(n)]
                yield {"leaves": [("top", "in", 1)], "subs": subs}


def _kinds(t):
    out = [kind for _n, kind, _w in t["leaves"]]
    for _n, sub, _f, _r in t["subs"]:
        out += _kinds(sub)
    return out


def _redefined(seq):
    """A procedurally built bundle in which member names are assigned more than once, with values of the same or of another
    kind (signal -> sub-bundle, sub-bundle -> signal, ...): the bundle port flattens to the leaves of the *final* definition,
    on both sides of a connection.  seq: tuple of (member name, kind) assignments in order, kind in sig1|sig2|sub."""
    import hdl21 as h

    try:
        sub = h.Bundle(name="RSub")
        sub.p, sub.n = h.Signal(), h.Signal()
        B = h.Bundle(name="RB")
        final = {}
        for name, kind in seq:
            setattr(B, name, h.Signal(width=1 if kind == "sig1" else 2) if kind != "sub" else sub())
            final[name] = kind
        want = {}
        for name, kind in final.items():
            if kind == "sub":
                want[f"io_{name}_p"], want[f"io_{name}_n"] = 1, 1
            else:
                want[f"io_{name}"] = 1 if kind == "sig1" else 2
        inner = h.Module(name="RInner")
        inner.io = B(port=True)
        outer = h.Module(name="ROuter")
        outer.io = B()
        outer.i = inner(io=outer.io)
        pkg = h.to_proto(outer)
    except Exception as e:
        return "raised: " + short_exc(e)
    pin = [m for m in pkg.modules if m.name.endswith("RInner")][0]
    pout = [m for m in pkg.modules if m.name.endswith("ROuter")][0]
    got = {s_.name: s_.width for s_ in pin.signals}
    ports = sorted(p_.signal for p_ in pin.ports)
    if ports != sorted(want) or any(got.get(n) != w for n, w in want.items()):
        return f"bundle defined by the assignments {list(seq)}: its port should flatten to {want}, the module has ports {ports}"
    conns = sorted(c.portname for c in pout.instances[0].connections)
    if conns != sorted(want) or sorted(s_.name for s_ in pout.signals) != sorted(want):
        return f"bundle defined by the assignments {list(seq)}: the parent connects {conns} and holds {sorted(s_.name for s_ in pout.signals)}"
    return None


def redefined_items():
    kinds = ("sig1", "sig2", "sub")
    one = [(("data", a), ("data", b)) for a in kinds for b in kinds]
    two = [(("data", a), ("aux", c), ("data", b), ("aux", d)) for a in kinds for b in kinds for c in kinds for d in kinds if a != b or c != d]
    three = [(("data", a), ("data", b), ("data", c)) for a in kinds for b in kinds for c in kinds]
    return one + two + three


def run(ctx):
    for seq in redefined_items():
        r = _redefined(seq)
        ctx.count(states=1, transitions=len(seq), traces_validated_against_impl=1)
        ctx.fam("members_reassigned", cases=1)
        if r:
            ctx.violation(dict(depth=1, detail="", inst_flip="no", port=True, what="members reassigned: " + ("raised" if r.startswith("raised") else "ports")), dict(redefined=[list(x) for x in seq]), r)
    items = []
    tops = [(p, f, r) for p in (True, False) for f in TOP_FLIPS for r in ROLES]
    fam_sizes = {}

    def add(fam, trees, tops_sel, stride=1):
        n0 = len(items)
        for k, t in enumerate(trees):
            if k % stride != (ctx.seed % stride):
                continue
            for j, (p, f, r) in enumerate(tops_sel):
                items.append((t, p, f, r, ("class", "proc", "unnamed", "shared", "class", "unnamed")[(k + j) % 6] if any(kk not in ("in", "out", "inout", "port", "plain") for kk in _kinds(t)) else ("class", "proc", "shared", "proc")[(k + j) % 4]))
        fam_sizes[fam] = len(items) - n0

    add("flat", list(flat_trees()), tops)
    add("chain2", list(chain_trees(2, not ctx.quick)), tops)
    add("chain3", list(chain_trees(3, not ctx.quick)), tops, stride=1 if not ctx.quick else 4)
    add("fan", list(fan_trees()), [(True, "no", None), (True, "ctor", "HOST"), (True, "fn", "DEVICE"), (False, "no", None)], stride=1 if not ctx.quick else 3)
    if ctx.quick:
        ctx.cap("chain3: every 4th and fan: every 3rd definition tree (offset VERIF_SEED) in the quick tier")
    res = ctx.pmap(_one, items, chunk=200)
    for it, r in zip(items, res):
        ctx.count(states=1, transitions=2, traces_validated_against_impl=1)
        if isinstance(r, tuple):
            ctx.outcome(("flat", r[1]))
            r = None
        else:
            ctx.outcome(r[:25])
        if r:
            depth = 1 + (1 if it[0]["subs"] else 0) + (1 if it[0]["subs"] and it[0]["subs"][0][1]["subs"] else 0)
            what = r.split(":")[0] if r.startswith("raised") else ("direction" if "direction" in r else "visibility" if "port" in r else "name/width")
            ctx.violation(dict(what=what, depth=depth, port=it[1], inst_flip=it[2], detail=r[:40] if what == "raised" else ""), dict(tree=it[0], is_port=it[1], inst_flip=it[2], inst_role=it[3], style=it[4]), r)
    for f, n in fam_sizes.items():
        ctx.fam(f, designs=n)
    ctx.sample(dict(tree=items[0][0], is_port=items[0][1], inst_flip=items[0][2], inst_role=items[0][3]))
    ctx.sample(dict(tree=items[-1][0], is_port=items[-1][1], inst_flip=items[-1][2], inst_role=items[-1][3]))
    ctx.assume("a role-carrying leaf takes its direction from the role of the bundle instance that immediately encloses it; flips do not affect role-directed leaves",
               "the connection half of the property (both sides agree member by member) is decided by C01 family F4 / C05 member-clash rules")


def replay(body):
    if "redefined" in body.get("case", {}):
        r = _redefined(tuple(tuple(x) for x in body["case"]["redefined"]))
        print("replay:", r or "holds")
        return 1 if r else 0
    c = body["case"]

    def tup(t):
        return {"leaves": [tuple(x) for x in t["leaves"]], "subs": [(s[0], tup(s[1]), s[2], s[3]) for s in t["subs"]]}

    r = _one((tup(c["tree"]), c["is_port"], c["inst_flip"], c["inst_role"], c["style"]))
    r = None if isinstance(r, tuple) else r
    print("replay:", r or "holds")
    return 1 if r else 0
