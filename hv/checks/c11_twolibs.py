"""
C11 scenario, run as a script in a fresh process: `python c11_twolibs.py <order> <shape>`.

Two cell libraries, c11_liba/cells.py and c11_libb/cells.py, each define `Inv` and `Buf` (Buf instantiates Inv twice): the
same cell names under two paths.  A top using both (in the given order; shape `hier` uses the Bufs, `flat` the Invs, `both`
all four) is exported, imported and exported again.  Prints {"result": null | description of the difference} as JSON.
"""

import sys, os, json, tempfile, pathlib, importlib, shutil

sys.path.insert(0, str(pathlib.Path(__file__).resolve().parents[2]))

SRC = """
import hdl21 as h

@h.module
class Inv:
    i = h.Input()
    o = h.Output()
    VSS = h.Port()
    r = h.R(r=RVAL)(p=i, n=o)

@h.module
class Buf:
    i = h.Input()
    o = h.Output()
    VSS = h.Port()
    mid = h.Signal()
    a = Inv(i=i, o=mid, VSS=VSS)
    b = Inv(i=mid, o=o, VSS=VSS)
"""


def main(order, shape):
    import hdl21 as h
    from hv.checks.c11 import roundtrip

    tmp = pathlib.Path(tempfile.mkdtemp(prefix="hv_c11_"))
    try:
        for lib, rval in (("c11_liba", 1000), ("c11_libb", 2500)):
            (tmp / lib).mkdir()
            (tmp / lib / "__init__.py").write_text("")
            (tmp / lib / "cells.py").write_text(SRC.replace("RVAL", str(rval)))
        sys.path.insert(0, str(tmp))
        libs = [importlib.import_module(f"c11_lib{c}.cells") for c in order]
        top = h.Module(name="Top")
        top.VSS = h.Port()
        top.n0 = h.Signal()
        k = 0
        for lib in libs:
            for cell in {"hier": ["Buf"], "flat": ["Inv"], "both": ["Inv", "Buf"]}[shape]:
                nxt = top.add(h.Signal(name=f"n{k + 1}"))
                top.add(getattr(lib, cell)(i=getattr(top, f"n{k}"), o=nxt, VSS=top.VSS), name=f"x{k}")
                k += 1
        pkg = h.to_proto(top, domain="twolibs")
        names = [m.name for m in pkg.modules]
        r = roundtrip(pkg)
        if r is None and len({n.rsplit(".", 1)[-1] for n in names}) == len(names):
            r = f"scenario is vacuous: no two modules share a short name in {names}"
    finally:
        shutil.rmtree(tmp, ignore_errors=True)
    print(json.dumps({"result": r, "modules": names}))


if __name__ == "__main__":
    main(sys.argv[1], sys.argv[2])
