"""
C04 — the last connection made to a port is the one that gets built (engine E3: operation-history exploration).

Subject: an Instance / InstanceArray(2) / Pair `i` of a child with ports a(1), b(2) and (Instance, array) a bundle port t.
Helpers: `j` (every port tied to its own signal) and `k` (ports only ever reached through references).
A state is the history that reaches it: the module is rebuilt from scratch and the operations replayed on fresh objects.
Every history up to the depth bound is completed canonically (connect whatever is neither connected nor referenced),
elaborated and exported, and compared with the reference semantics of the *final* port-to-connection mapping;
`Instance.conns` is compared with a last-writer-wins model after every operation.
"""

import itertools
from .. import refsem, observe
from ..core import short_exc
from ..families.base import *
from ..families.f4_bundles import BUNDLES, bref, anon, dct, b

BUND = dict(BUNDLES)
BUND["Diff"] = {"sigs": [("p", 1, "sig"), ("n", 1, "sig")], "subs": [], "builtin": "Diff"}

# value menus: name -> Expr.  Objects are shared inside one history (same NoConn / Signal / bundle instance object).
VALS = {
    "inst": {
        "a": {"s1": sig("s1"), "s2": sig("s2"), "v0": idx(sig("v"), 0), "c1": cat(sig("s2")), "rj": pref("j", "a"), "rk": pref("k", "a"),
              "rks": idx(pref("k", "a"), 0), "nc1": nc("n1"), "ncn": nc("n2", "named_nc"), "bx": bref("b1", "x")},
        "b": {"v": sig("v"), "u": sig("u"), "c2": cat(sig("s1"), sig("s2")), "t13": rng(sig("w"), 1, 3), "rj": pref("j", "b"), "rk": pref("k", "b"),
              "nc1": nc("n1"), "nc3": nc("n3"), "by": bref("b1", "y")},
        "t": {"b1": b("b1"), "b1x": b("b1x"), "br": bref("b2", "sub"), "an": anon(x=sig("s1"), y=sig("v")), "di": dct(x=sig("s2"), y=sig("u")),
              "anr": anon(x=pref("k", "a"), y=bref("b1", "y")), "rj": pref("j", "t"), "rk": pref("k", "t"), "nc4": nc("n4")},
    },
    "array": {
        "a": {"s1": sig("s1"), "s2": sig("s2"), "v": sig("v"), "c2": cat(sig("s2"), sig("s1")), "rj": pref("j", "a"), "rk": pref("k", "a"), "nc1": nc("n1")},
        "b": {"v": sig("v"), "u": sig("u"), "w": sig("w"), "c4": cat(sig("u"), sig("v")), "t13": rng(sig("w"), 1, 3), "rj": pref("j", "b"), "rk": pref("k", "b")},
        "t": {"b1": b("b1"), "b1x": b("b1x"), "rj": pref("j", "t")},
    },
    "pair": {
        "a": {"s1": sig("s1"), "s2": sig("s2"), "v0": idx(sig("v"), 0), "d0": b("d0"), "d1": b("d1"), "an": ("anon", [("p", sig("s1")), ("n", sig("s2"))]),
              "anb": ("anon", [("p", ("bref", "d0", ["n"])), ("n", ("bref", "d1", ["p"]))]), "rj": pref("j", "a"), "rk": pref("k", "a")},
        "b": {"v": sig("v"), "u": sig("u"), "c2": cat(sig("s1"), sig("s2")), "an2": ("anon", [("p", sig("v")), ("n", sig("u"))]), "rj": pref("j", "b"), "rk": pref("k", "b")},
    },
}
# two scalar ports of one instance that can be tied to the *same* object (reference, signal, no-connect), deeper histories
VALS["inst2"] = {
    "a": {"rk": pref("k", "a"), "rj": pref("j", "a"), "s1": sig("s1"), "nc1": nc("n1")},
    "c": {"rk": pref("k", "a"), "rj": pref("j", "a"), "s1": sig("s1"), "s2": sig("s2")},
}
# members of a bundle instance `b3` that nothing else refers to (it is observed through a whole-bundle connection): a
# member reference that was replaced is dead, and other members are first referred to after it
VALS["instb"] = {
    "a": {"b3x": bref("b3", "x"), "s1": sig("s1")},
    "b": {"b3y": bref("b3", "y"), "v": sig("v")},
}
CONNECT_VERBS = ["call", "setattr", "connect"]


def base_design(kind):
    """Top with every object the menus use (all probed), child, helpers j (tied) and k (untied), subject i (unconnected)."""
    exts = dict([probe_ext(1), probe_ext(2), probe_ext(4)])
    child = {"name": "Child", "style": "class", "decls": [
        ("port", "a", 1, "none"), ("port", "b", 2, "none"), ("bport", "t", "B1", False, None),
        ("inst", "pa", ("ext", "P1", {"k": 1}), [("a", sig("a"))]), ("inst", "pb", ("ext", "P2", {"k": 2}), [("a", sig("b"))]),
        ("inst", "px", ("ext", "P1", {"k": 3}), [("a", bref("t", "x"))]), ("inst", "py", ("ext", "P2", {"k": 4}), [("a", bref("t", "y"))]),
    ]}
    child2 = {"name": "Child2", "style": "class", "decls": [
        ("port", "a", 1, "none"), ("port", "b", 2, "none"),
        ("inst", "pa", ("ext", "P1", {"k": 1}), [("a", sig("a"))]), ("inst", "pb", ("ext", "P2", {"k": 2}), [("a", sig("b"))]),
    ]}
    child3 = {"name": "Child3", "style": "class", "decls": [
        ("port", "a", 1, "none"), ("port", "c", 1, "none"),
        ("inst", "pa", ("ext", "P1", {"k": 1}), [("a", sig("a"))]), ("inst", "pc", ("ext", "P1", {"k": 2}), [("a", sig("c"))]),
    ]}
    decls = []
    for n, w in [("s1", 1), ("s2", 1), ("v", 2), ("u", 2), ("w", 4), ("ja", 1), ("jb", 2), ("jc", 1), ("da", 1), ("db", 2), ("dc", 1)]:
        decls.append(("sig", n, w))
        decls.append(probe("p_" + n, n, w, 5))
    decls += [("inst", "q_b1_x", ("ext", "P1", {"k": 8}), [("a", bref("b1", "x"))]), ("inst", "q_b1_y", ("ext", "P2", {"k": 9}), [("a", bref("b1", "y"))])]
    decls += [("binst", "b1", "B1"), ("binst", "b1x", "B1"), ("binst", "b2", "B2"), ("binst", "jt", "B1"), ("binst", "dt", "B1"),
              ("binst", "d0", "Diff"), ("binst", "d1", "Diff")]
    for bn in ("d0", "d1"):
        for m in ("p", "n"):
            decls.append(("inst", f"q_{bn}_{m}", ("ext", "P1", {"k": 6}), [("a", ("bref", bn, [m]))]))
    cm = "Child2" if kind == "pair" else "Child3" if kind == "inst2" else "Child"
    jconns = [("a", sig("ja")), ("b", sig("jb"))] + ([("t", b("jt"))] if kind != "pair" else [])
    if kind == "inst2":
        jconns = [("a", sig("ja")), ("c", sig("jc"))]
    decls.append(("inst", "j", ("mod", cm), jconns))
    decls.append(("inst", "k", ("mod", cm), []))
    if kind == "instb":
        decls += [("sig", "qa", 1), ("sig", "qb", 2), ("binst", "b3", "B1"), ("inst", "qb3", ("mod", "Child"), [("a", sig("qa")), ("b", sig("qb")), ("t", b("b3"))])]
    if kind in ("inst", "inst2", "instb"):
        decls.append(("inst", "i", ("mod", cm), []))
    elif kind == "array":
        decls.append(("array", "i", ("mod", cm), 2, []))
    else:
        decls.append(("pair", "i", ("mod", cm), []))
    top = {"name": "Top", "style": "proc", "decls": decls}
    return {"bundles": BUND, "exts": exts, "modules": {"Child": child, "Child2": child2, "Child3": child3, "Top": top}, "top": "Top"}


def ops_for(kind, mapping):
    """Enabled operations in a state (mapping: port -> value name)."""
    out = []
    for port, menu in VALS[kind].items():
        for vn in menu:
            for verb in CONNECT_VERBS:
                out.append((verb, port, vn))
            if port in mapping:
                out.append(("replace", port, vn))
        if port in mapping:
            out.append(("disconnect", port, None))
    return out


def histories(kind, depth, verbs_reduced=False):
    """All operation histories of exactly 1..depth operations (BFS order), as lists of ops."""
    level = [([], {})]
    out = []
    for d in range(depth):
        nxt = []
        for hist, mapping in level:
            for op in ops_for(kind, mapping):
                if verbs_reduced and d < depth - 1 and op[0] in ("call", "connect"):
                    continue  # deeper levels: one connect spelling for the non-final operations
                m2 = dict(mapping)
                if op[0] == "disconnect":
                    m2.pop(op[1])
                else:
                    m2[op[1]] = op[2]
                h2 = hist + [op]
                nxt.append((h2, m2))
                out.append(h2)
        level = nxt
    return out


def final_design(kind, mapping):
    """Design spec of the completed final mapping: what the history *means*."""
    d = base_design(kind)
    top = d["modules"]["Top"]
    decl = [x for x in top["decls"] if x[1] == "i"][0]
    ports = ["a", "c"] if kind == "inst2" else ["a", "b"] + (["t"] if kind != "pair" else [])
    conns = []
    for p in ports:
        if p in mapping:
            conns.append((p, VALS[kind][p][mapping[p]]))
    live = repr(conns)
    # canonical completion: connect what is neither connected nor referenced by a live connection
    defaults = {"a": sig("da"), "b": sig("db"), "t": b("dt"), "c": sig("dc")}
    for p in ports:
        if p not in mapping:
            conns.append((p, defaults[p]))
    kconns = []
    for p in ports:
        if f"'k', '{p}'" not in live:
            kconns.append((p, defaults[p]))
    newdecls = []
    for x in top["decls"]:
        if x[1] == "i":
            x = (x[0], x[1], x[2], conns) if x[0] != "array" else (x[0], x[1], x[2], x[3], conns)
        elif x[1] == "k":
            x = (x[0], x[1], x[2], kconns)
        newdecls.append(x)
    top["decls"] = newdecls
    return d, conns, kconns


def _one(item):
    import hdl21 as h
    from ..build import build, mk_expr

    kind, hist = item
    design = base_design(kind)
    try:
        built = build(design)
    except Exception as e:
        return dict(kind="harness", detail=short_exc(e))
    ns = {k[1]: v for k, v in built.objs.items() if k[0] == "Top"}
    inst = ns["i"]
    ncs = {}
    made = {}  # (port, value name) -> object, so that the same object is re-connected when a value recurs

    def obj(port, vn):
        key = (port, vn) if VALS[kind][port][vn][0] in ("anon", "dict", "cat", "idx", "rng") else ("*", repr(VALS[kind][port][vn]))
        if key not in made:
            made[key] = mk_expr(VALS[kind][port][vn], ns, ncs, design, built)
        return made[key]

    mapping = {}
    model = {}
    try:
        for step, (verb, port, vn) in enumerate(hist):
            if verb == "disconnect":
                inst.disconnect(port)
                mapping.pop(port)
                model.pop(port)
            else:
                x = obj(port, vn)
                if verb == "call":
                    inst(**{port: x})
                elif verb == "setattr":
                    setattr(inst, port, x)
                elif verb == "connect":
                    inst.connect(port, x)
                elif verb == "replace":
                    inst.replace(port, x)
                mapping[port] = vn
                model[port] = x
            # invariant: conns is exactly the last-writer-wins mapping (dict shorthand becomes an AnonymousBundle)
            cn = inst.conns
            if set(cn) != set(model):
                return dict(kind="conns", step=step, detail=f"conns has ports {sorted(cn)}, model {sorted(model)}")
            for p, x in model.items():
                if isinstance(x, dict):
                    if not isinstance(cn[p], h.AnonymousBundle):
                        return dict(kind="conns", step=step, detail=f"{p}: dict shorthand did not become an AnonymousBundle")
                elif cn[p] is not x:
                    return dict(kind="conns", step=step, detail=f"{p}: conns holds {cn[p]!r}, last connected {x!r}")
    except Exception as e:
        return dict(kind="op_raised", detail=short_exc(e))
    if kind == "array":
        # an element of an array is not addressable: `arr[k]` is refused - a connection written as `arr[k].p = x`, or an
        # element replaced by `arr[k] = other`, must not appear to succeed and then be missing from the design
        for how in ("getitem", "setitem"):
            try:
                if how == "getitem":
                    setattr(inst[0], "a", ns["da"])
                else:
                    inst[1] = inst
            except Exception:
                continue
            return dict(kind="silent_noop", detail=f"indexing the array ({how}) did not raise: the connection / replacement written through it is silently lost")
    # completion, on the real objects
    fdesign, conns, kconns = final_design(kind, mapping)
    try:
        rdev, rpart = refsem.R(fdesign)
    except refsem.Invalid as e:
        return "invalid_final"
    try:
        for p, e in conns:
            if p not in mapping:
                inst.connect(p, mk_expr(e, ns, ncs, design, built))
        for p, e in kconns:
            ns["k"].connect(p, mk_expr(e, ns, ncs, design, built))
        pkg = h.to_proto(built.top)
    except Exception as e:
        if refsem.derivation_cycle(fdesign):
            return "grey_raised"
        return dict(kind="rejected_valid", detail=short_exc(e))
    try:
        odev, opart = observe.O_pkg(pkg, fdesign)
    except observe.Malformed as e:
        return dict(kind="malformed_package", detail=str(e))
    dd = observe.devices_agree(rdev, odev)
    if dd:
        return dict(kind="devices", detail=dd)
    if opart != rpart:
        return dict(kind="partition", detail=observe.partition_diff(rpart, opart))
    return None


# ------------------------------------------------------------------------------------------------
# second exploration: references *to* the subject's port, taken at different moments of the history
# ------------------------------------------------------------------------------------------------
REF_OPS = [("set", "s1"), ("set", "bx"), ("set", "rh"), ("disconnect", None), ("badreplace", "s1"), ("badreplace", "rh"),
           ("refby", "h0"), ("refby", "h2"), ("hset", "h0"),
           # a reference to a port whose own connection is a reference (chains three links deep), and a chain whose root loses
           # its explicit signal, so that the whole chain hangs on one implicit net
           ("chain", "h2"), ("h1drop", None),
           # a connect-by-call that fails part-way (its second argument is not connectable), is caught, and is followed by more edits
           ("badcall", "rh"), ("badcall", "s1"),
           # a connectable *type* written for an instance of it (`inst.a = h.NoConn`, parentheses forgotten): refused, and the
           # instance must be left usable
           ("badclass", None),
           # a slip of the pen - a bundle member / a port of h1 that does not exist - which a later `set` corrects
           ("settypo", "bundle"), ("settypo", "port"),
           # an instance tied to the same object that never becomes part of the module, or is replaced under its name
           ("stray", "never_added"), ("stray", "replaced_by_name")]
REF_VALS = {"s1": sig("s1"), "bx": bref("b1", "x"), "rh": pref("h1", "a")}
# the same exploration on a bundle-valued port: bundle instance, anonymous bundle, reference to another instance's bundle port
REF_VALS_T = {"s1": b("bA"), "bx": anon(x=sig("s1"), y=sig("vv")), "rh": pref("h1", "t")}


def ref_histories(depth):
    out = []
    level = [[]]
    for d in range(depth):
        nxt = []
        for hist in level:
            conn = None
            for op in hist:
                if op[0] in ("set", "badcall", "settypo"):  # the connection a failing call made before it failed stands
                    conn = op[1]
                elif op[0] == "disconnect":
                    conn = None
            for op in REF_OPS:
                if op[0] == "disconnect" and conn is None:
                    continue
                if op[0] == "badreplace" and conn is not None:
                    continue
                if op[0] == "h1drop" and op in hist:
                    continue
                nxt.append(hist + [op])
        out += nxt
        level = nxt
    return out


def ref_design(final, mode="a"):
    """Design of the final mapping of a refs-history: final = dict(i=value|None, h0='ref'|'s2'|None, h2='ref'|None).
    mode "a": the subject port is the scalar port a; mode "t": the bundle-valued port t."""
    exts = dict([probe_ext(1), probe_ext(2)])
    decls = []
    if mode == "a":
        port, vals = "a", REF_VALS
        child = {"name": "Child1", "style": "class", "decls": [("port", "a", 1, "none"), ("inst", "pa", ("ext", "P1", {"k": 1}), [("a", sig("a"))])]}
        for n in ("s1", "s2", "h1a", "da", "dh0", "dh2"):
            decls.append(("sig", n, 1))
            decls.append(probe("p_" + n, n, 1, 5))
        decls += [("binst", "b1", "B1"), ("inst", "q_b1_x", ("ext", "P1", {"k": 8}), [("a", bref("b1", "x"))]), ("inst", "q_b1_y", ("ext", "P2", {"k": 9}), [("a", bref("b1", "y"))])]
        tie = {"h1": sig("h1a"), "s2": sig("s2"), "da": sig("da"), "dh0": sig("dh0"), "dh2": sig("dh2")}
    else:
        port, vals = "t", REF_VALS_T
        child = {"name": "Child1", "style": "class", "decls": [("bport", "t", "B1", False, None),
                 ("inst", "px", ("ext", "P1", {"k": 1}), [("a", bref("t", "x"))]), ("inst", "py", ("ext", "P2", {"k": 2}), [("a", bref("t", "y"))])]}
        decls += [("sig", "s1", 1), ("sig", "vv", 2), probe("p_s1", "s1", 1, 5), probe("p_vv", "vv", 2, 5)]
        for k, bn in enumerate(("bA", "bH1", "bS2", "bDa", "bDh0", "bDh2")):
            decls += [("binst", bn, "B1"), ("inst", f"q_{bn}_x", ("ext", "P1", {"k": 10 + k}), [("a", bref(bn, "x"))]), ("inst", f"q_{bn}_y", ("ext", "P2", {"k": 20 + k}), [("a", bref(bn, "y"))])]
        tie = {"h1": b("bH1"), "s2": b("bS2"), "da": b("bDa"), "dh0": b("bDh0"), "dh2": b("bDh2")}
    decls.append(("inst", "h1", ("mod", "Child1"), [] if final.get("h1") == "dropped" else [(port, tie["h1"])]))
    referenced = final.get("h0") == "ref" or final.get("h2") == "ref"
    iconn = [(port, vals[final["i"]])] if final.get("i") else ([] if referenced else [(port, tie["da"])])
    decls.append(("inst", "i", ("mod", "Child1"), iconn))
    h0 = [(port, pref("i", port))] if final.get("h0") == "ref" else [(port, tie["s2"])] if final.get("h0") == "s2" else [(port, tie["dh0"])]
    h2 = [(port, pref("i", port))] if final.get("h2") == "ref" else [(port, pref("h0", port))] if final.get("h2") == "ref_h0" else [(port, tie["dh2"])]
    decls.append(("inst", "h0", ("mod", "Child1"), h0))
    decls.append(("inst", "h2", ("mod", "Child1"), h2))
    top = {"name": "Top", "style": "proc", "decls": decls}
    stray = dict(child, name="Stray1")  # a cell with the same ports that the design itself never instantiates
    return {"bundles": BUND, "exts": exts, "modules": {"Child1": child, "Stray1": stray, "Top": top}, "top": "Top"}, tie


def _ref_one(item):
    import hdl21 as h
    from ..build import build, mk_expr

    mode, hist = item
    port = "a" if mode == "a" else "t"
    vals = REF_VALS if mode == "a" else REF_VALS_T
    start, tie = ref_design(dict(i=None, h0=None, h2=None), mode)
    top = start["modules"]["Top"]
    top["decls"] = [(d[0], d[1], d[2], []) if d[0] == "inst" and d[1] in ("i", "h0", "h2") else d for d in top["decls"]]
    try:
        built = build(start)
    except Exception as e:
        return dict(kind="harness", detail=short_exc(e))
    ns = {k[1]: v for k, v in built.objs.items() if k[0] == "Top"}
    ncs = {}
    objs = {k: mk_expr(v, ns, ncs, start, built) for k, v in vals.items() if k != "rh"}
    tieobj = {k: mk_expr(v, ns, ncs, start, built) for k, v in tie.items()}
    final = dict(i=None, h0=None, h2=None)
    i = ns["i"]
    try:
        for op in hist:
            if op[0] == "set":
                v = objs[op[1]] if op[1] != "rh" else getattr(ns["h1"], port)
                setattr(i, port, v)
                final["i"] = op[1]
            elif op[0] == "disconnect":
                i.disconnect(port)
                final["i"] = None
            elif op[0] == "badreplace":
                v = objs[op[1]] if op[1] != "rh" else getattr(ns["h1"], port)
                try:
                    i.replace(port, v)
                    return dict(kind="op", detail="replace() of an unconnected port did not raise")
                except KeyError:
                    pass
            elif op[0] == "stray":
                cur = i.conns.get(port)
                v = cur if cur is not None else objs["s1"]
                stray = built.modules["Stray1"](**{port: v})
                if op[1] == "replaced_by_name":
                    built.top.zz_tmp = stray
                    built.top.zz_tmp = h.Signal()
                continue
            elif op[0] == "settypo":
                bad = getattr(ns["b1" if mode == "a" else "bA"], "no_such_member") if op[1] == "bundle" else getattr(ns["h1"], "no_such_port")
                setattr(i, port, bad)
                final["i"] = "typo"
            elif op[0] == "badclass":
                before = dict(i.conns)
                try:
                    setattr(i, port, h.NoConn)
                    return dict(kind="op", detail="connecting the NoConn *type* did not raise")
                except Exception:
                    pass
                if dict(i.conns) != before and not (set(i.conns) <= {port} and all(not isinstance(c, type) for c in i.conns.values())):
                    return dict(kind="conns", detail=f"after the refused connection of a type, conns is {dict(i.conns)!r:.80}")
                if port not in i.conns:
                    final["i"] = None
                continue
            elif op[0] == "badcall":
                v = objs[op[1]] if op[1] != "rh" else getattr(ns["h1"], port)
                before = dict(i.conns)
                try:
                    i(**{port: v, "zz_not_a_port": 3})
                    return dict(kind="op", detail="connect-by-call with a non-connectable value did not raise")
                except Exception:
                    pass
                # the part of the call made before the failure either stands or was taken back - both are sound, as long
                # as what is built in the end is what `conns` says
                if set(i.conns) == {port} and (dict(i.conns) != before):
                    final["i"] = op[1]
                elif dict(i.conns) != before:
                    return dict(kind="conns", detail=f"after the failed call conns is {sorted(i.conns)}")
                continue
            elif op[0] == "refby":
                setattr(ns[op[1]], port, getattr(i, port))
                final[op[1]] = "ref"
            elif op[0] == "hset":
                setattr(ns["h0"], port, tieobj["s2"])
                final["h0"] = "s2"
            elif op[0] == "chain":
                setattr(ns["h2"], port, getattr(ns["h0"], port))
                final["h2"] = "ref_h0"
            elif op[0] == "h1drop":
                ns["h1"].disconnect(port)
                final["h1"] = "dropped"
            if set(i.conns) != ({port} if final["i"] else set()):
                return dict(kind="conns", detail=f"after {op}: conns has {sorted(i.conns)}")
    except Exception as e:
        return dict(kind="op_raised", detail=short_exc(e))
    if final["i"] == "typo":
        return "invalid_final"  # the slip was never corrected
    fdesign, _tie = ref_design(final, mode)
    try:
        rdev, rpart = refsem.R(fdesign)
    except refsem.Invalid:
        return "invalid_final"
    try:
        # canonical completion on the real objects
        referenced = final["h0"] == "ref" or final["h2"] == "ref"
        if not final["i"] and not referenced:
            setattr(i, port, tieobj["da"])
        if final["h0"] is None:
            setattr(ns["h0"], port, tieobj["dh0"])
        if final["h2"] is None:
            setattr(ns["h2"], port, tieobj["dh2"])
        pkg = h.to_proto(built.top)
        odev, opart = observe.O_pkg(pkg, fdesign)
    except Exception as e:
        return dict(kind="rejected_valid", detail=short_exc(e))
    if observe.devices_agree(rdev, odev):
        return dict(kind="devices", detail=observe.devices_agree(rdev, odev))
    if opart != rpart:
        return dict(kind="partition", detail=observe.partition_diff(rpart, opart))
    return None


def features(kind, hist):
    """Narrow signature of a violating history: what was replaced by what."""
    prev = {}
    repl = []
    for verb, port, vn in hist:
        if port in prev:
            repl.append(f"{prev[port]}->{vn if vn else 'disconnect'}")
        if verb == "disconnect":
            prev.pop(port, None)
        else:
            prev[port] = vn
    return ",".join(sorted(set(repl)))[:80]


def run(ctx):
    plans = [("inst", 2), ("array", 2), ("pair", 2), ("inst2", 3), ("instb", 3)] if ctx.quick else [("inst", 3), ("array", 2), ("pair", 3), ("inst2", 4), ("instb", 4)]
    for kind, depth in plans:
        hs = histories(kind, depth, verbs_reduced=(depth >= 3 and kind != "instb"))
        items = [(kind, hh) for hh in hs]
        res = ctx.pmap(_one, items, chunk=100)
        for (k, hh), r in zip(items, res):
            ctx.count(states=1, transitions=len(hh) + 2, traces_validated_against_impl=1)
            ctx.fam(kind, histories=1)
            if r == "invalid_final":
                ctx.fam(kind, final_mapping_invalid=1)
                ctx.outcome("invalid_final")
                continue
            if r == "grey_raised":
                ctx.fam(kind, grey_raised=1)
                continue
            if r is None:
                ctx.outcome("agree:" + kind + ":" + str(len(hh)))
                continue
            ctx.outcome(r["kind"] + ":" + kind)
            sig_ = dict(subject=kind, kind=r["kind"], replaced=features(kind, hh))
            ctx.violation(sig_, dict(subject=kind, history=hh), r)
        ctx.extra.setdefault("depth", {})[kind] = depth
        if items:
            ctx.sample(dict(subject=kind, history=items[len(items) // 2][1]))
            ctx.sample(dict(subject=kind, history=items[-1][1]))
    # references to the subject's own port, taken before / after re-connections, dead references, failed operations
    rhs = ref_histories(4 if ctx.quick else 5)
    rh = [("a", hh) for hh in rhs] + [("t", hh) for hh in (ref_histories(3) if ctx.quick else rhs)]
    res = ctx.pmap(_ref_one, rh, chunk=100)
    for (mode, hh), r in zip(rh, res):
        ctx.count(states=1, transitions=len(hh) + 2, traces_validated_against_impl=1)
        ctx.fam("refs:" + mode, histories=1)
        if r == "invalid_final":
            ctx.fam("refs:" + mode, final_mapping_invalid=1)
            continue
        if r is None:
            ctx.outcome("agree:refs:" + str(len(hh)))
            continue
        ctx.outcome(r["kind"] + ":refs")
        ctx.violation(dict(subject="refs:" + mode, kind=r["kind"], replaced=",".join(sorted({o[0] for o in hh}))), dict(subject="refs:" + mode, history=[list(o) for o in hh]), r)
    # a port whose name starts with an underscore: all histories up to depth 3 over the same verbs
    uh = [list(c) for n in (1, 2, 3) for c in itertools.product(USCORE_OPS, repeat=n)]
    for hh in uh:
        r = _underscore_port(hh)
        ctx.count(states=1, transitions=len(hh) + 1, traces_validated_against_impl=1)
        ctx.fam("underscore_port", histories=1)
        if r:
            ctx.violation(dict(subject="underscore_port", kind=r["kind"], replaced=",".join(sorted({o[0] for o in hh}))), dict(subject="underscore_port", history=[list(o) for o in hh]), r)
    ctx.extra.setdefault("depth", {})["refs"] = 4 if ctx.quick else 5
    ctx.sample(dict(subject="refs:" + rh[len(rh) // 2][0], history=[list(o) for o in rh[len(rh) // 2][1]]))
    ctx.assume("only histories whose completed final mapping the reference semantics calls valid are judged at the export level")


USCORE_OPS = [("call", "s1"), ("call", "s2"), ("setattr", "s1"), ("setattr", "s2"), ("connect", "s1"), ("connect", "s2"), ("replace", "s2"), ("disconnect", None)]


def _underscore_port(hist):
    """A cell port whose name starts with an underscore (`_en`): the same connection operations, the last one wins."""
    import hdl21 as h

    try:
        cell = h.ExternalModule(name="UCell", port_list=[h.Port(name="_en"), h.Port(name="z")], paramtype=dict, domain="hv")
        m = h.Module(name="UTop")
        m.s1, m.s2, m.dflt, m.zz = h.Signals(4)
        m.u = cell()(z=m.zz)
        final = None
        for verb, v in hist:
            try:
                if verb == "disconnect":
                    if final is None:
                        continue
                    m.u.disconnect("_en")
                    final = None
                    continue
                x = getattr(m, v)
                if verb == "call":
                    m.u(**{"_en": x})
                elif verb == "setattr":
                    setattr(m.u, "_en", x)
                elif verb == "connect":
                    m.u.connect("_en", x)
                else:
                    if final is None:
                        continue
                    m.u.replace("_en", x)
                final = v
            except Exception:
                continue  # a refused operation leaves the mapping as it was
            if m.u.conns.get("_en") is not x:
                return dict(kind="conns", detail=f"after {verb} of {v} to the port `_en`, conns holds {m.u.conns.get('_en')!r:.60}")
        if final is None:
            m.u.connect("_en", m.dflt)
            final = "dflt"
        pkg = h.to_proto(m)
        inst = pkg.modules[-1].instances[0]
        got = {c.portname: c.target.sig for c in inst.connections}
        if got.get("_en") != final:
            return dict(kind="partition", detail=f"port `_en` exported on {got.get('_en')!r}, last connected to {final!r}")
    except Exception as e:
        return dict(kind="op_raised", detail=short_exc(e))
    return None


def replay(body):
    c = body["case"]
    if c["subject"] == "underscore_port":
        r = _underscore_port([tuple(x) for x in c["history"]])
        print("replay:", r)
        return 0 if r is None else 1
    if c["subject"].startswith("refs"):
        r = _ref_one((c["subject"].split(":")[1] if ":" in c["subject"] else "a", [tuple(x) for x in c["history"]]))
        print("replay:", r)
        return 0 if (r is None or isinstance(r, str)) else 1
    r = _one((c["subject"], [tuple(x) for x in c["history"]]))
    print("replay:", r)
    return 0 if (r is None or isinstance(r, str)) else 1
