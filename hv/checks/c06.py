"""
C06 — every exported package is closed and self-consistent (invariant over every package any explored to_proto returns).

Corpora: every design of every C01 family (valid or not by the reference - whatever to_proto returns must be well formed),
the C05 adversarial-name designs, the repository's example scripts (their to_proto calls intercepted), the built-in
generators over their parameter ranges, and PDK-compiled designs.
"""

import io, sys, importlib, contextlib
from .. import wf as wfmod
from ..core import short_exc

FAMILIES = ["f1_expr", "f2_portrefs", "f3_noconn", "f4_bundles", "f5_arrays", "f6_pairs", "f7_hier", "f8_names", "f9_multifeed"]


def _fam_one(item):
    import hdl21 as h
    from ..build import build

    fname, desc = item
    mod = importlib.import_module(f"hv.families.{fname}")
    fam, design = mod.design(desc)
    try:
        built = build(design)
        pkg = h.to_proto(built.top)
    except Exception as e:
        return fam, "raised", None, None
    probs = wfmod.wf(pkg)
    if not probs:
        probs = wfmod.accepts(pkg)
    return fam, "pkg", probs, (design if probs else None)


def _capture_packages(fn):
    """Run fn() with every to_proto call of the library recorded."""
    import hdl21 as h, hdl21.netlisting as hn, hdl21.proto as hpr, hdl21.proto.exporting as hpe

    pkgs = []
    orig = hpe.to_proto

    def rec(*a, **k):
        p = orig(*a, **k)
        pkgs.append(p)
        return p

    saved = [(m, getattr(m, "to_proto")) for m in (h, hn, hpr, hpe)]
    for m, _ in saved:
        m.to_proto = rec
    import os

    sys.stdout.flush()
    keep = os.dup(1)
    devnull = os.open(os.devnull, os.O_WRONLY)
    os.dup2(devnull, 1)  # the example scripts hold their own reference to sys.stdout
    try:
        with contextlib.redirect_stdout(io.StringIO()):
            fn()
    finally:
        sys.stdout.flush()
        os.dup2(keep, 1)
        os.close(keep)
        os.close(devnull)
        for m, o in saved:
            m.to_proto = o
    return pkgs


def _example_one(name):
    if "/repo" not in sys.path:
        sys.path.append("/repo")
    try:
        mod = importlib.import_module(f"examples.{name}")
        pkgs = _capture_packages(mod.main)
    except Exception as e:
        return name, "raised:" + short_exc(e), []
    out = []
    for k, p in enumerate(pkgs):
        probs = wfmod.wf(p) or wfmod.accepts(p)
        out.append((k, len(p.modules), probs))
    return name, "ok", out


def _gen_one(item):
    import hdl21 as h
    from hdl21.generators import Series, MosStack, CmDmGen, Balun, Wrapper
    from hdl21.primitives import R, C, Mos, Vcvs, Npn

    kind, n, unit = item
    try:
        if kind == "series":
            u = {"R": lambda: R(r=1), "C": lambda: C(c=1), "Vcvs": lambda: Vcvs(gain=1), "Mos": lambda: Mos(), "Npn": lambda: Npn()}[unit]()
            ports = list(u.ports)
            m = Series(unit=u, nser=n, conns=(ports[0], ports[1]))
        elif kind == "mosstack":
            m = MosStack(nser=n)
        elif kind == "cmdm":
            from hdl21.generators import AcDc
            from hdl21.prefix import m as MILLI, UNIT

            m = CmDmGen(cm=AcDc(ac=n * MILLI, dc=1 * UNIT), dm=AcDc(ac=1 * UNIT, dc=n * MILLI))
        elif kind == "balun":
            m = Balun()
        elif kind == "wrapper":
            m = Wrapper(R(r=1)) if unit == "R" else Wrapper(Mos())
        pkg = h.to_proto(m)
    except Exception as e:
        return item, "raised:" + short_exc(e), None
    probs = wfmod.wf(pkg) or wfmod.accepts(pkg)
    return item, "pkg", probs


def _genname_one(item):
    """Two modules generated with different parameter values, instantiated by one parent."""
    import hdl21 as h

    ptype, va, vb = item
    try:
        @h.paramclass
        class P:
            a = h.Param(dtype={"float": float, "str": str, "int": int}[ptype], desc="a")

        @h.generator
        def G(p: P) -> h.Module:
            m = h.Module()
            m.x = h.Port()
            m.r = h.R(r=1)(p=m.x, n=m.x)
            return m

        top = h.Module(name="GenTop")
        top.s = h.Signal()
        top.i0 = G(a=va)(x=top.s)
        top.i1 = G(a=vb)(x=top.s)
        pkg = h.to_proto(top)
    except Exception as e:
        return item, "raised:" + short_exc(e), None
    probs = wfmod.wf(pkg) or wfmod.accepts(pkg)
    return item, "pkg", probs


def _extpair_one(item):
    """Two external modules in one design: same / different names, domains, port lists; used at the top and below it."""
    import hdl21 as h

    samename, samedomain, deep, viaarray = item
    try:
        e1 = h.ExternalModule(name="res", domain="pdk_a", port_list=[h.Port(name="p"), h.Port(name="n")], paramtype=dict)
        if viaarray == "sameports":
            # the second one has the very same port names, but a wider port: as much a different module as one with other ports
            e2 = h.ExternalModule(name="res" if samename else "res2", domain="pdk_a" if samedomain else "pdk_b",
                                  port_list=[h.Port(name="p"), h.Port(name="n", width=2)], paramtype=dict)
            inner = h.Module(name="ExtInner")
            inner.x, inner.y, inner.w2 = h.Port(), h.Port(), h.Signal(width=2)
            inner.u = e2(dict(k=2))(p=inner.x, n=inner.w2)
            inner.tie = h.R(r=1)(p=inner.w2[0], n=inner.y)
            top = h.Module(name="ExtTop")
            top.a, top.c = h.Signal(), h.Signal()
            top.u1 = e1(dict(k=1))(p=top.a, n=top.c)
            top.i = inner(x=top.a, y=top.c)
            pkg = h.to_proto(top)
            probs = wfmod.wf(pkg) or wfmod.accepts(pkg, netlist=not samename)
            return item, "pkg", probs
        e2 = h.ExternalModule(name="res" if samename else "res2", domain="pdk_a" if samedomain else "pdk_b",
                              port_list=[h.Port(name="p"), h.Port(name="n"), h.Port(name="b")], paramtype=dict)
        inner = h.Module(name="ExtInner")
        inner.x, inner.y = h.Port(), h.Port()
        inner.u = e2(dict(k=2))(p=inner.x, n=inner.y, b=inner.y)
        top = h.Module(name="ExtTop")
        top.a, top.c = h.Signal(), h.Signal()
        if viaarray:
            top.u1 = h.InstanceArray(of=e1(dict(k=1)), n=2)(p=top.a, n=top.c)
        else:
            top.u1 = e1(dict(k=1))(p=top.a, n=top.c)
        if deep:
            top.i = inner(x=top.a, y=top.c)
        else:
            top.u2 = e2(dict(k=2))(p=top.a, n=top.c, b=top.c)
        pkg = h.to_proto(top)
    except Exception as e:
        return item, "raised:" + short_exc(e), None
    probs = wfmod.wf(pkg)
    if not probs:
        probs = [p for p in wfmod.accepts(pkg, netlist=not samename) if True]
    return item, "pkg", probs


REDECL_KINDS = ["in", "out", "sig", "sig2", "inst", "binst", "bport", "arr"]


def _redecl_one(item):
    """A name declared twice in one module (step-wise refinement): kind k1, then kind k2; as the top module or one level down."""
    import hdl21 as h

    k1, k2, deep = item
    try:
        inv = h.Module(name="RInv")
        inv.i, inv.o = h.Input(), h.Output()
        bd = h.Bundle(name="RB")
        bd.x, bd.y = h.Signal(), h.Signal(width=2)
        c = h.Module(name="Stage")
        c.i, c.o, c.w = h.Input(), h.Output(), h.Signal()

        def mk(kind):
            return {"in": lambda: h.Input(), "out": lambda: h.Output(), "sig": lambda: h.Signal(), "sig2": lambda: h.Signal(width=2),
                    "inst": lambda: inv(i=c.i, o=c.w), "binst": lambda: bd(), "bport": lambda: bd(port=True),
                    "arr": lambda: h.InstanceArray(of=inv, n=2)(i=c.i, o=c.w)}[kind]()

        c.mid = mk(k1)
        c.mid = mk(k2)
        if k2 in ("in", "out", "sig"):
            c.a = inv(i=c.i, o=c.mid)
            c.b = inv(i=c.mid, o=c.o)
        elif k2 == "sig2":
            c.b = inv(i=c.mid[1], o=c.o)
        elif k2 in ("binst", "bport"):
            c.b = inv(i=c.mid.x, o=c.o)
        else:
            c.b = inv(i=c.w, o=c.o)
        top = c
        if deep:
            top = h.Module(name="RTop")
            top.x, top.y, top.z = h.Signal(), h.Signal(), h.Signal()
            conns = dict(i=top.x, o=top.y)
            if k2 in ("in", "out"):
                conns["mid"] = top.z
            elif k2 == "bport":
                top.bb = bd()
                conns["mid"] = top.bb
            top.s = c(**conns)
        pkg = h.to_proto(top)
    except Exception as e:
        return item, "raised:" + short_exc(e), None
    probs = wfmod.wf(pkg) or wfmod.accepts(pkg)
    return item, "pkg", probs


SLIPS = ["alias_signal", "alias_instance", "call_returns_same", "rename_signal", "rename_instance", "rename_to_implicit", "stale_slice",
         "width_zero", "width_shrunk_under_slice", "ext_dup_ports", "alias_port", "alias_in_child", "same_name_below",
         "rename_instance_like_signal", "rename_signal_like_instance", "rename_port_like_signal",
         "bad_edit_after_failure_late", "bad_edit_after_failure_early", "ext_revised_then_used", "ext_revised_pin_left_open"]


SLIPS_STALE = [f"stale_slice:{lo}:{hi}:{nw}" for lo in range(8) for hi in range(lo + 1, 9) for nw in range(1, 8) if hi > nw]


def _slip_one(kind):
    """Design programs with a slip of the pen after which object names and namespace keys (or cached geometry) disagree:
    whatever to_proto returns must still be well formed - raising is fine."""
    import hdl21 as h

    try:
        inv = h.Module(name="SInv")
        inv.i, inv.z = h.Input(), h.Output()
        wide = h.Module(name="SWide")
        wide.a = h.Input(width=2)
        m = h.Module(name="SlipTop")
        m.x, m.y, m.w = h.Signal(), h.Signal(), h.Signal()
        m.bus = h.Signal(width=8)
        m.i1 = inv(i=m.x, z=m.y)
        top = m
        if kind == "alias_signal":
            m.q = m.w  # one Signal under two names
            m.i2 = inv(i=m.y, z=m.q)
        elif kind == "alias_port":
            m.pp = h.Port()
            m.qq = m.pp
            m.i2 = inv(i=m.pp, z=m.w)
        elif kind == "alias_instance":
            m.i2 = m.i1  # one Instance under two names
        elif kind == "call_returns_same":
            m.i2 = m.i1(z=m.w)  # connect-by-call returns the same Instance
        elif kind == "rename_signal":
            m.w.name = "y"  # renamed after it was added
            m.i2 = inv(i=m.y, z=m.w)
        elif kind == "rename_instance":
            m.i2 = inv(i=m.y, z=m.w)
            m.i2.name = "i1"
        elif kind == "rename_instance_like_signal":
            m.i2 = inv(i=m.y, z=m.w)
            m.i2.name = "w"  # an instance carrying the name of a signal of the same module
        elif kind == "rename_signal_like_instance":
            m.w.name = "i1"
            m.i2 = inv(i=m.y, z=m.w)
        elif kind == "rename_port_like_signal":
            m.pp = h.Port()
            m.i2 = inv(i=m.y, z=m.pp)
            m.pp.name = "w"  # a port and an internal signal of one name
        elif kind == "rename_to_implicit":
            m.w.name = "i1_z"  # the name the elaborator will pick for an implicit net
            m.i1.disconnect("z")
            m.i2 = inv(i=m.i1.z, z=m.w)
        elif kind == "stale_slice":
            sl = m.bus[5:7]
            sl.width  # bounds are worked out here ...
            m.bus.width = 4  # ... and the parent shrinks afterwards
            m.u = wide(a=sl)
        elif kind.startswith("stale_slice:"):
            # every slice of the 8-bit bus whose bounds were worked out before the bus shrank to every smaller width
            lo, hi, nw = (int(x) for x in kind.split(":")[1:])
            leafw = h.Module(name=f"SWide{hi - lo}")
            leafw.a = h.Input(width=hi - lo)
            sl = m.bus[lo:hi]
            sl.width
            m.bus.width = nw
            m.u = leafw(a=sl)
        elif kind == "width_zero":
            m.w.width = 0
            m.i2 = inv(i=m.y, z=m.w)
        elif kind == "width_shrunk_under_slice":
            m.u = wide(a=m.bus[6:8])
            m.bus.width = 6
        elif kind == "ext_dup_ports":
            e = h.ExternalModule(name="SDup", port_list=[h.Inout(name="a"), h.Inout(name="a")], paramtype=dict)
            m.e = e()(a=m.w)
        elif kind == "same_name_below":
            # a module that has the name of a module further down its own hierarchy (cells made by a plain function)
            def stage(inner):
                st = h.Module(name="SStage")
                st.p, st.q = h.Input(), h.Output()
                st.u = inner(**({"i": st.p, "z": st.q} if inner is inv else {"p": st.p, "q": st.q}))
                return st

            buf = h.Module(name="SBuf")
            buf.p, buf.q = h.Input(), h.Output()
            buf.s = stage(inv)(p=buf.p, q=buf.q)
            m.c = stage(buf)(p=m.y, q=m.w)
        elif kind.startswith("bad_edit_after_failure"):
            # an export fails (late: an array's port left unconnected, seen after flattening; early: an orphan signal); the
            # designer then makes a faulty edit to a correct sub-module of the failed design - refused or accepted - and
            # exports a new top that uses that sub-module
            sub = h.Module(name="SSub")
            sub.p, sub.q = h.Input(), h.Output()
            sub.mid = h.Signal()
            sub.j1 = inv(i=sub.p, z=sub.mid)
            sub.j2 = inv(i=sub.mid, z=sub.q)
            failing = h.Module(name="SFailing")
            failing.a, failing.b = h.Signal(), h.Signal()
            failing.s = sub(p=failing.a, q=failing.b)
            if kind.endswith("late"):
                failing.arr = 2 * inv(i=failing.a)  # z left unconnected
            else:
                failing.k = inv(i=failing.a, z=h.Signal(name="nobodys"))
            try:
                h.to_proto(failing)
                return kind, "raised:harness: the faulty design was exported", None
            except Exception:
                pass
            try:
                sub.j3 = inv(i=sub.mid)  # z missing
                sub.w2 = h.Signal(width=2)
                sub.j4 = inv(i=sub.w2, z=sub.q)  # 2 bits on a 1-bit port
            except Exception:
                pass  # refused: the sub-module is in use
            top = h.Module(name="STop2")
            top.a, top.b = h.Signal(), h.Signal()
            top.s = sub(p=top.a, q=top.b)
        elif kind.startswith("ext_revised"):
            # a macro (ExternalModule) is used and exported, then revised - a supply pin is added to its port list, a port is
            # widened - and used again in another design
            mac = h.ExternalModule(name="SMacro", port_list=[h.Input(name="a"), h.Output(name="z", width=2)], paramtype=dict, domain="hv")
            m.t = h.Signal(width=2)
            m.mc = mac()(a=m.x, z=m.t)
            _ = (mac.ports, h.to_proto(m))
            mac.port_list.append(h.Port(name="vdd"))
            mac.port_list[1].width = 4
            top = h.Module(name="SlipTop2")
            top.x, top.vdd, top.t4 = h.Signal(), h.Signal(), h.Signal(width=4)
            if kind == "ext_revised_then_used":
                top.mc = mac()(a=top.x, z=top.t4, vdd=top.vdd)  # valid against the revision
            else:
                top.mc = mac()(a=top.x, z=top.t4)  # the new pin left open: to be refused
        elif kind == "alias_in_child":
            c = h.Module(name="SChild")
            c.p, c.q = h.Input(), h.Output()
            c.n = h.Signal()
            c.n2 = c.n
            c.j1 = inv(i=c.p, z=c.n)
            c.j2 = inv(i=c.n2, z=c.q)
            m.c = c(p=m.y, q=m.w)
        pkg = h.to_proto(top)
    except Exception as e:
        return kind, "raised:" + short_exc(e), None
    probs = wfmod.wf(pkg) or wfmod.accepts(pkg)
    return kind, "pkg", probs


def _mutant_one(item):
    """Single-fault mutants of family designs (the C02 corpus): whatever to_proto returns for them must still be well formed."""
    import hdl21 as h
    from ..build import build
    from .. import mutate, refsem

    fname, desc = item
    mod = importlib.import_module(f"hv.families.{fname}")
    fam, design = mod.design(desc)
    out = []
    try:
        refsem.R(design)
    except Exception:
        return fam, out
    for cls, site, d2, reasons in mutate.mutants(design)[::3]:
        try:
            pkg = h.to_proto(build(d2).top)
        except Exception:
            out.append((cls, "raised", None, None))
            continue
        probs = wfmod.wf(pkg)
        out.append((cls, "pkg", probs[:3], d2 if probs else None))
    return fam, out


def _pdk_one(item):
    """A small design of generic primitives compiled to a PDK, then exported."""
    import hdl21 as h

    pdk, which = item
    try:
        mod = importlib.import_module(pdk)
        m = h.Module(name="PdkTop")
        m.a, m.b, m.c, m.d = h.Signals(4)
        if which == "nmos":
            m.x = h.Nmos()(d=m.a, g=m.b, s=m.c, b=m.d)
        elif which == "pmos":
            m.x = h.Pmos()(d=m.a, g=m.b, s=m.c, b=m.d)
        elif which == "mixed":
            # a generic transistor compiled by model name, next to the same device instantiated directly from the PDK
            import sky130_hdl21.primitives as sp

            m.x = h.Mos(model="NMOS_1p8V_STD")(d=m.a, g=m.b, s=m.c, b=m.d)
            m.y = sp.NMOS_1p8V_STD(mod.Sky130MosParams())(d=m.a, g=m.b, s=m.c, b=m.d)
        mod.compile(m)
        pkg = h.to_proto(m)
    except Exception as e:
        return item, "raised:" + short_exc(e), None
    probs = wfmod.wf(pkg) or wfmod.accepts(pkg)
    return item, "pkg", probs


def run(ctx):
    # (a) design families
    items = []
    for f in FAMILIES:
        try:
            mod = importlib.import_module(f"hv.families.{f}")
        except ImportError:
            continue
        its = mod.items("quick")
        if ctx.quick and len(its) > 6000:
            # quick: a fixed arithmetic sub-sequence of the big families (all of them in thorough)
            step = len(its) // 6000 + 1
            its = its[ctx.seed % step :: step]
            ctx.cap(f"{f}: every {step}-th design (offset {ctx.seed % step}) in the quick tier")
        items += [(f, d) for d in its]
    res = ctx.pmap(_fam_one, items)
    for (fname, desc), (fam, status, probs, design) in zip(items, res):
        ctx.count(states=1, transitions=2, traces_validated_against_impl=1)
        ctx.fam(fname, **{status: 1})
        if status != "pkg":
            ctx.outcome("raised:" + fname)
            continue
        ctx.outcome(("ill" if probs else "wf") + ":" + fam)
        if probs:
            ctx.violation(dict(corpus="family", family=fname, problem=classify(probs[0])), dict(family=fam, design=design), probs[:5])
    # (b) examples
    for name in ["ro", "rdac", "encoder", "mos_sim", "diff_ota", "idac", "bundles"]:
        nm, status, out = _example_one(name)
        ctx.count(states=1, transitions=1, traces_validated_against_impl=1)
        ctx.fam("examples", **{("ran" if status == "ok" else "raised"): 1})
        if status != "ok":
            ctx.violation(dict(corpus="example", example=name, problem="example raised"), dict(example=name), status)
            continue
        for k, nmods, probs in out:
            ctx.count(states=1, transitions=1)
            ctx.fam("examples", packages=1, modules=nmods)
            ctx.outcome(("ill" if probs else "wf") + ":example:" + name)
            if probs:
                ctx.violation(dict(corpus="example", example=name, problem=classify(probs[0])), dict(example=name, package_index=k), probs[:5])
    # (c) built-in generators
    gitems = [("series", n, u) for n in range(1, 5 if ctx.quick else 9) for u in ("R", "C", "Vcvs", "Mos", "Npn")]
    gitems += [("mosstack", n, None) for n in range(1, 5 if ctx.quick else 9)] + [("cmdm", 0, None), ("cmdm", 500, None), ("balun", 0, None), ("wrapper", 0, "R"), ("wrapper", 0, "Mos")]
    for item in gitems:
        it, status, probs = _gen_one(item)
        ctx.count(states=1, transitions=2, traces_validated_against_impl=1)
        ctx.fam("builtin_generators", **{("pkg" if status == "pkg" else "raised"): 1})
        ctx.outcome(status.split(":")[0] + ":gen:" + item[0])
        if status == "pkg" and probs:
            ctx.violation(dict(corpus="generator", gen=item[0], problem=classify(probs[0])), dict(item=item), probs[:5])
    # (c2) generated modules whose names derive from parameter values
    vals = {"float": [1.5, 2.5, 0.5, 1e-9, 2.0], "str": ["a", "a.b", "c.b", "x y", "p=q"], "int": [1, 2, -1]}
    for ptype, vs in vals.items():
        for va in vs:
            for vb in vs:
                if va == vb:
                    continue
                it, status, probs = _genname_one((ptype, va, vb))
                ctx.count(states=1, transitions=2, traces_validated_against_impl=1)
                ctx.fam("generated_names", **{("pkg" if status == "pkg" else "raised"): 1})
                ctx.outcome(status.split(":")[0] + ":genname:" + ptype)
                if status == "pkg" and probs:
                    ctx.violation(dict(corpus="generated_names", ptype=ptype, problem=classify(probs[0])), dict(item=[ptype, va, vb]), probs[:5])
    # (c3) pairs of external modules
    import itertools as _it
    for item in list(_it.product((True, False), (True, False), (True, False), (True, False))) + [(sn, sd, True, "sameports") for sn in (True, False) for sd in (True, False)]:
        it, status, probs = _extpair_one(item)
        ctx.count(states=1, transitions=2, traces_validated_against_impl=1)
        ctx.fam("external_module_pairs", **{("pkg" if status == "pkg" else "raised"): 1})
        ctx.outcome(status.split(":")[0] + ":extpair")
        if status == "pkg" and probs:
            ctx.violation(dict(corpus="external_pairs", problem=classify(probs[0])), dict(extpair=list(item)), probs[:5])
    # (c3b) names declared twice, every ordered pair of kinds
    for item in _it.product(REDECL_KINDS, REDECL_KINDS, (False, True)):
        it, status, probs = _redecl_one(item)
        ctx.count(states=1, transitions=2, traces_validated_against_impl=1)
        ctx.fam("redeclared_names", **{("pkg" if status == "pkg" else "raised"): 1})
        ctx.outcome(status.split(":")[0] + ":redecl:" + item[1])
        if status == "pkg" and probs:
            ctx.violation(dict(corpus="redeclared", first=item[0], then=item[1], problem=classify(probs[0])), dict(redecl=list(item)), probs[:5])
    # (c3c) slips after which names / cached geometry disagree with the namespace
    for kind in SLIPS + SLIPS_STALE:
        k_, status, probs = _slip_one(kind)
        ctx.count(states=1, transitions=2, traces_validated_against_impl=1)
        ctx.fam("program_slips", **{("pkg" if status == "pkg" else "raised"): 1})
        ctx.outcome(status.split(":")[0] + ":slip:" + kind.split(":")[0])
        if status == "pkg" and probs:
            ctx.violation(dict(corpus="slips", slip=kind.split(":")[0], problem=classify(probs[0])), dict(slip=kind), probs[:5])
    # (c4) single-fault mutants: ill-formed designs normally raise; anything returned must be well formed
    mitems = []
    for fname, stride in (("f1_expr", 60), ("f2_portrefs", 900), ("f4_bundles", 12), ("f5_arrays", 40), ("f7_hier", 400)):
        its = importlib.import_module(f"hv.families.{fname}").items("quick")
        if not ctx.quick:
            stride = max(1, stride // 4)
        mitems += [(fname, d) for d in its[ctx.seed % stride :: stride]]
    res = ctx.pmap(_mutant_one, mitems, chunk=2)
    for (fname, desc), (fam, out) in zip(mitems, res):
        for cls, status, probs, d2 in out:
            ctx.count(states=1, transitions=2, traces_validated_against_impl=1)
            ctx.fam("single_fault_mutants", **{status: 1})
            if status == "pkg":
                ctx.outcome(("ill" if probs else "wf") + ":mutant:" + cls)
                if probs:
                    ctx.violation(dict(corpus="mutants", fault=cls, problem=classify(probs[0])), dict(family=fam, fault=cls, design=d2), probs)
    # (d) PDK-compiled designs
    for item in [(p, w) for p in ("hdl21.pdk.sample_pdk", "sky130_hdl21", "gf180_hdl21", "asap7_hdl21") for w in ("nmos", "pmos")] + [("sky130_hdl21", "mixed")]:
        it, status, probs = _pdk_one(item)
        ctx.count(states=1, transitions=3, traces_validated_against_impl=1)
        ctx.fam("pdk_compiled", **{("pkg" if status == "pkg" else "raised"): 1})
        ctx.outcome(status.split(":")[0] + ":pdk:" + item[0])
        if status == "pkg" and probs:
            ctx.violation(dict(corpus="pdk", pdk=item[0], problem=classify(probs[0])), dict(item=item), probs[:5])
    ctx.sample(dict(corpus="family", item=items[0][0], descriptor=repr(items[0][1])[:300]))
    ctx.sample(dict(corpus="examples", names=["ro", "rdac", "encoder", "mos_sim", "diff_ota", "idac", "bundles"]))
    ctx.sample(dict(corpus="generators", items=gitems[:6]))
    ctx.assume("netlister acceptance is demanded only of packages without uncompiled physical primitives (documented: compile to a technology first)")


def classify(p):
    for key in ("not unique", "duplicate signal", "duplicate instance", "duplicate port", "names no declared", "not defined earlier", "neither a known", "connected twice", "non-existent port", "not connected", "undeclared signal", "outside width", "connection width", "from_proto rejects", "netlister rejects", "empty"):
        if key in p:
            return key
    return p[:40]


def replay(body):
    c = body["case"]
    if "design" in c:
        import hdl21 as h
        from ..build import build

        pkg = h.to_proto(build(c["design"]).top)
        probs = wfmod.wf(pkg) or wfmod.accepts(pkg)
    elif "example" in c:
        _, _, out = _example_one(c["example"])
        probs = [p for (_k, _n, ps) in out for p in ps]
    elif "slip" in c:
        probs = _slip_one(c["slip"])[2]
    elif "redecl" in c:
        probs = _redecl_one(tuple(c["redecl"]))[2]
    elif "extpair" in c:
        probs = _extpair_one(tuple(c["extpair"]))[2]
    elif c["item"][0] in ("float", "str", "int"):
        probs = _genname_one(tuple(c["item"]))[2]
    else:
        probs = _gen_one(tuple(c["item"]))[2] if c["item"][0] in ("series", "mosstack", "cmdm", "balun", "wrapper") else _pdk_one(tuple(c["item"]))[2]
    print("replay:", probs or "well-formed")
    return 1 if probs else 0
