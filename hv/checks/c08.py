"""
C08 — a failed elaboration or generator call does not poison later ones (engine E4: fault-point enumeration).

Fault points:
  * injected: for every position p of the default pass list and every module m of a design DAG, a custom pass list
    default[:p] + [Bomb_m] + default[p:] whose extra pass raises on m (public ElabPass / Elaborator / set_elaborator);
  * real design faults: every single-fault mutant of the DAG designs that the library rejects (so that each checking and
    rewriting pass - Orphanage, InstBundle, ResolvePortRefs, ConnTypes, BundleFlattener, ArrayFlattener, the exporter -
    is the one that raises somewhere);
  * generator bodies raising on their first run (plain, nested, shared inner generator).
Continuations, each after the failure: retry unchanged; retry with the injected fault removed; repair the design fault
and retry; elaborate an unrelated fresh design; export every healthy module of the same DAG; then retry again.
"""

import io, itertools
from ..core import short_exc
from ..families import dags
from .. import mutate, refsem
from .c07 import fresh_packages


def contains(design, mname, target, memo=None):
    """Does module `mname` (transitively) instantiate `target`?"""
    if mname == target:
        return True
    for d in design["modules"][mname]["decls"]:
        if d[0] in ("inst", "array", "pair") and d[2][0] == "mod":
            if contains(design, d[2][1], target):
                return True
    return False


def healthy_equal_fresh(h, design, built, dname, offending, skip_top=None, parents_first=False):
    """Every module that does not contain the offending module must export exactly as in a fresh build.
    `parents_first` exports in reverse dependency order, so that no healthy sub-module has been completed on its own
    before a parent that shares it is tried."""
    fresh = fresh_packages(dname)
    order = list(design["modules"])
    if parents_first:
        order = order[::-1]
    for m in order:
        if offending is not None and contains(design, m, offending):
            continue
        try:
            got = h.to_proto(built.modules[m]).SerializeToString(deterministic=True)
        except Exception as e:
            return f"healthy module {m} cannot be exported after the failure: {short_exc(e)}"
        if got != fresh[m]:
            return f"healthy module {m} exports differently after the failure"
    return None


def unrelated_ok(h):
    """An unrelated fresh design elaborates and exports as always."""
    try:
        u = h.Module(name="Unrelated")
        u.s = h.Signal()
        u.r = h.R(r=1)(p=u.s, n=u.s)
        pkg = h.to_proto(u)
        if len(pkg.modules) != 1 or len(pkg.modules[0].instances) != 1:
            return "unrelated design exported wrongly after the failure"
    except Exception as e:
        return "unrelated design cannot be elaborated after the failure: " + short_exc(e)
    return None


LEAF = {"dag1": "L", "dag2": "K", "dag1h": "L"}


def edit_module(h, built, dname, mname):
    """The designer's later edit of a module: an instance array, a no-connect and a port-to-port reference of the leaf
    cell (so that the array, no-connect and port-reference rewrites all have work to do).  Returns False if refused."""
    m, leaf = built.modules[mname], built.modules[LEAF[dname]]
    try:
        ea, eb = m.add(h.Signal(name="ed_a")), m.add(h.Signal(name="ed_b", width=2))
        m.add(h.InstanceArray(of=leaf, n=2, name="ed_arr")(a=ea, b=eb))
        m.add(leaf(a=h.NoConn(), b=eb), name="ed_i0")
        i1 = m.add(leaf(b=eb), name="ed_i1")
        m.add(leaf(a=i1.a, b=eb), name="ed_i2")
    except Exception:
        return False
    return True


def edited_healthy_equal_fresh(h, design_for_fresh, built, dname, offending, tally):
    """Every healthy non-leaf module, edited after the failure, exports exactly as the same edit of a fresh build does."""
    from ..build import build

    tally.update(edited=0, refused=0)
    if offending == LEAF[dname]:
        return None  # the edit instantiates the leaf cell: with the leaf itself at fault, the edited module would contain it
    for mname in list(design_for_fresh["modules"])[::-1]:
        if mname == LEAF[dname] or contains(design_for_fresh, mname, offending):
            continue
        fb = build(design_for_fresh)
        try:
            if not edit_module(h, fb, dname, mname):
                continue
            ref = h.to_proto(fb.modules[mname]).SerializeToString(deterministic=True)
        except Exception:
            continue  # the planted fault reaches this module some other way: not a healthy one
        if not edit_module(h, built, dname, mname):
            tally["refused"] += 1
            continue  # already frozen: refusing the edit is fine
        tally["edited"] += 1
        try:
            got = h.to_proto(built.modules[mname]).SerializeToString(deterministic=True)
        except Exception as e:
            return f"healthy module {mname}, edited after the failure, cannot be exported: {short_exc(e)[:120]}"
        if got != ref:
            return f"healthy module {mname}, edited after the failure, exports differently from a fresh build with the same edit"
    return None


# ------------------------------------------------------------------------------------------------ injected faults
def _bomb(item):
    import hdl21 as h
    from hdl21.elab import Elaborator
    from hdl21.elab.passes import ElabPass
    from ..build import build

    dname, top, pos, victim, cont = item[:5]
    Raised = KeyboardInterrupt if len(item) > 5 and item[5] == "interrupt" else RuntimeError
    design = dags.ALL[dname]()
    built = build(design)
    vmod = built.modules[victim]

    class Bomb(ElabPass):
        def elaborate_module(self, module):
            if module is vmod and Bomb.armed:
                raise Raised(f"injected fault on {module.name}")
            return module

    Bomb.armed = True
    default = Elaborator.default().passes
    h.set_elaborator(Elaborator(passes=default[:pos] + [Bomb] + default[pos:]))
    try:
        try:
            h.elaborate(built.modules[top])
            return ("no_failure", None)
        except (RuntimeError, KeyboardInterrupt) as e:
            msg1 = short_exc(e)
        if "injected fault" not in msg1:
            return ("other_failure", msg1)
        if cont == "retry":
            try:
                h.elaborate(built.modules[top])
                return ("bad", "retrying the failed call with the fault still present returned normally")
            except BaseException as e:
                # after an interruption the later attempts may say "was interrupted" instead of interrupting again
                if "injected fault" not in short_exc(e) and not (Raised is KeyboardInterrupt and "interrupted" in short_exc(e)):
                    return ("bad", f"retry reported a different error: {short_exc(e)}")
            return ("ok", None)
        if cont == "disarm_retry":
            Bomb.armed = False
            try:
                pkg = h.to_proto(built.modules[top]).SerializeToString(deterministic=True)
            except Exception as e:
                return ("ok", "raised")  # refusing is allowed
            if pkg != fresh_packages(dname)[top]:
                return ("bad", "after removing the fault, the retried export differs from a fresh build")
            return ("ok", "equal")
        if cont == "edit_healthy":
            h.reset_elaborator()
            tally = {}
            r = edited_healthy_equal_fresh(h, design, built, dname, victim, tally)
            return ("bad", r) if r else ("ok", f"edited {tally['edited']} refused {tally['refused']}")
        if cont in ("others", "others_parents_first"):
            h.reset_elaborator()
            r = unrelated_ok(h) or healthy_equal_fresh(h, design, built, dname, victim, parents_first=(cont == "others_parents_first"))
            return ("bad", r) if r else ("ok", None)
    finally:
        h.reset_elaborator()
    return ("ok", None)


def _subclass_fault(item):
    """The fault sits in a *subclass* of one of the default passes, used in its place: the pass does its rewriting of the
    victim module and then raises.  Afterwards, with the default elaborator back in place, nothing that contains the victim
    may be exported (it is half-rewritten) unless the package equals that of a fresh build; healthy modules are as fresh."""
    import hdl21 as h
    from hdl21.elab import Elaborator
    from ..build import build

    dname, top, pos, victim = item[:4]
    mode = item[4] if len(item) > 4 else "after"
    design = dags.ALL[dname]()
    built = build(design)
    vmod = built.modules[victim]
    default = Elaborator.default().passes
    Base = default[pos]

    class Faulty(Base):
        def elaborate_module(self, module):
            if module is vmod and mode == "midway":
                # the pass dies half-way through its rewriting: one attribute (an array, else an instance bundle, a bundle
                # instance, an instance) has been taken out of the module and nothing put in its place yet
                for view in (module.instarrays, module.instbundles, module.bundles, module.instances):
                    if view:
                        name = next(iter(view))
                        view.pop(name)
                        module.namespace.pop(name, None)
                        break
                raise RuntimeError(f"injected fault in {Base.__name__} on {module.name}")
            rv = super().elaborate_module(module)
            if module is vmod:
                raise RuntimeError(f"injected fault in {Base.__name__} on {module.name}")
            return rv

    h.set_elaborator(Elaborator(passes=default[:pos] + [Faulty] + default[pos + 1:]))
    try:
        try:
            h.elaborate(built.modules[top])
            return ("no_failure", None)
        except RuntimeError as e:
            if "injected fault" not in short_exc(e):
                return ("ok", "failed earlier: " + short_exc(e)[:40])  # e.g. a later check pass missing its predecessor: not our scenario
    finally:
        h.reset_elaborator()
    fresh = fresh_packages(dname)
    for m in list(design["modules"])[::-1]:
        try:
            got = h.to_proto(built.modules[m]).SerializeToString(deterministic=True)
        except Exception:
            if not contains(design, m, victim):
                return ("bad", f"healthy module {m} cannot be exported after a fault in a replaced {Base.__name__}")
            continue
        if got != fresh[m]:
            what = "contains the half-rewritten" if contains(design, m, victim) else "does not even contain the faulty"
            return ("bad", f"after a fault in a replaced {Base.__name__} on {victim}, {m} ({what} module) is exported differently from a fresh build")
    return ("ok", None)


# ------------------------------------------------------------------------------------------------ real design faults
def _real(item):
    import hdl21 as h
    from ..build import build, mk_expr

    dname, top, k, entry, cont = item
    base = dags.with_top(dags.ALL[dname](), top)
    muts = mutate.classified(base)
    if k >= len(muts):
        return ("skip", None, None)
    cls, site, d2, reason = muts[k]
    offending = site.split(".")[0]
    try:
        built = build(d2)
    except Exception as e:
        return ("skip", None, cls)

    def call():
        if entry == "elaborate":
            return h.elaborate(built.modules[top])
        if entry == "to_proto":
            return h.to_proto(built.modules[top])
        if entry == "to_proto_list":
            # a list of tops: healthy modules that do not contain the offending one (non-leaf ones first), then the faulty design
            goods = [m for m in base["modules"] if m != top and m != offending and not contains(base, m, offending)]
            goods.sort(key=lambda m: 0 if any(d[0] in ("inst", "array", "pair") and d[2][0] == "mod" for d in base["modules"][m]["decls"]) else 1)
            return h.to_proto([built.modules[g] for g in goods[:2]] + [built.modules[top]])
        if entry == "to_proto_list_ff":
            # a list that starts with the faulty design, goes on with another parent of the offending module (which fails
            # again while the first failure is being tidied up) and ends with healthy modules
            parents = [m for m in base["modules"] if m != top and m != offending and contains(base, m, offending)]
            goods = [m for m in base["modules"] if m != top and m != offending and not contains(base, m, offending)]
            return h.to_proto([built.modules[top]] + [built.modules[p_] for p_ in parents[:1]] + [built.modules[g] for g in goods[::-1][:3]])
        return h.netlist(built.modules[top], io.StringIO(), fmt="spice")

    try:
        call()
        return ("accepted", None, cls)  # C02's business, not C08's
    except Exception as e:
        msg1 = short_exc(e)
    if cont == "retry":
        try:
            call()
            return ("bad", f"{cls} at {site}: first call failed ({msg1[:80]}), the identical second call returned normally", cls)
        except Exception as e:
            msg2 = short_exc(e)
            if "circular" in msg2.lower() and "circular" not in msg1.lower():
                return ("bad", f"{cls} at {site}: retry reports a spurious circular dependency instead of: {msg1[:100]}", cls)
            if core(msg1) not in msg2 and core(msg2) not in msg1:
                return ("bad", f"{cls} at {site}: retry reports a different error: {msg2[:100]} (first: {msg1[:100]})", cls)
        return ("ok", None, cls)
    if cont in ("others", "others_parents_first"):
        r = unrelated_ok(h) or healthy_equal_fresh(h, base, built, dname, offending, parents_first=(cont == "others_parents_first"))
        if r:
            return ("bad", f"{cls} at {site}: {r}", cls)
        # and the failed call still fails the same way afterwards
        try:
            call()
            return ("bad", f"{cls} at {site}: after exporting healthy modules the failed call returned normally", cls)
        except Exception as e:
            if "circular" in short_exc(e).lower() and "circular" not in msg1.lower():
                return ("bad", f"{cls} at {site}: spurious circular dependency after exporting healthy modules", cls)
        return ("ok", None, cls)
    if cont == "edit_healthy":
        tally = {}
        r = edited_healthy_equal_fresh(h, d2, built, dname, offending, tally)
        return ("bad", f"{cls} at {site}: {r}", cls) if r else ("ok", f"edited {tally['edited']} refused {tally['refused']}", cls)
    if cont == "other_parents":
        # every other module that contains the offending one: what a fresh build of the same faulty design says about it
        # (an error, as a rule) is what must come back now - never a package made from a half-rewritten sub-module
        others = [m for m in list(base["modules"])[::-1] if m != top and contains(base, m, offending)]
        for m in others:
            try:
                ref = h.to_proto(build(d2).modules[m]).SerializeToString(deterministic=True)
            except Exception:
                ref = None
            try:
                got = h.to_proto(built.modules[m]).SerializeToString(deterministic=True)
            except Exception as e:
                if "circular" in short_exc(e).lower() and "circular" not in msg1.lower():
                    return ("bad", f"{cls} at {site}: spurious circular dependency when exporting {m} after the failure", cls)
                continue
            if ref is None:
                return ("bad", f"{cls} at {site}: after the failed call, {m} (which contains the faulty {offending}) exports a package; a fresh build refuses it", cls)
            if got != ref:
                return ("bad", f"{cls} at {site}: after the failed call, {m} exports differently from a fresh build", cls)
        return ("ok", f"parents:{len(others)}", cls)
    if cont == "repair":
        # the designer edits the offending connection back to what the valid design has, then retries
        parts = site.split("/")[0].split(".")
        if len(parts) != 3 or cls in ("width_decl", "array_count"):
            return ("skip", None, cls)
        mname, iname, pname = parts
        bdecl = [d for d in base["modules"][mname]["decls"] if d[1] == iname][0]
        bconns = dict(bdecl[3] if bdecl[0] != "array" else bdecl[4])
        ns = {kk[1]: v for kk, v in built.objs.items() if kk[0] == mname}
        inst = ns[iname]
        try:
            if pname not in bconns:
                inst.disconnect(pname)
            else:
                inst.connect(pname, mk_expr(bconns[pname], ns, {}, base, built))
        except Exception as e:
            return ("ok", "repair_refused", cls)
        try:
            pkg = h.to_proto(built.modules[top]).SerializeToString(deterministic=True)
        except Exception as e:
            return ("ok", "raised_after_repair", cls)
        if pkg != fresh_packages(dname)[top]:
            return ("bad", f"{cls} at {site}: after repairing the design the export returns a package that a fresh build of the repaired design does not", cls)
        return ("ok", "equal_after_repair", cls)
    return ("ok", None, cls)


def _anon(item):
    """A module the designer forgot to name, `depth` levels below the top: the call fails in the very last pass.  Then:
    the same call again; the nameless module on its own; a new parent of it - each must report what a fresh process
    reports for it (the missing name), never return normally or die of something else."""
    import hdl21 as h

    depth, entry, cont = item

    def mk():
        leaf = h.Module()
        leaf.p = h.Port()
        leaf.r = h.R(r=1)(p=leaf.p, n=leaf.p)
        top = leaf
        for d in range(depth):
            w = h.Module(name=f"AnonWrap{d}")
            w.p = h.Port()
            w.inner = top(p=w.p)
            top = w
        return leaf, top

    def call(m):
        return h.elaborate(m) if entry == "elaborate" else h.to_proto(m)

    def parent(leaf):
        np_ = h.Module(name="AnonNewParent")
        np_.s = h.Signal()
        np_.i = leaf(p=np_.s)
        return np_

    try:
        leaf, top = mk()
        # what a fresh process says about the continuation's design
        fl, ft = mk()
        try:
            call({"retry": ft, "alone": fl, "new_parent": parent(fl)}[cont])
            return ("skip", "a fresh build accepts the design")
        except Exception as e:
            ref = short_exc(e)
        try:
            call(top)
            return ("skip", "the design was accepted")
        except Exception as e:
            msg1 = short_exc(e)
        target = {"retry": top, "alone": leaf, "new_parent": None}[cont] or parent(leaf)
        try:
            call(target)
        except Exception as e:
            msg2 = short_exc(e)
            if msg2.split(":")[0] != ref.split(":")[0] or (core(ref) not in msg2 and core(msg2) not in ref):
                return ("bad", f"nameless module at depth {depth}, {entry}, then {cont}: reports {msg2[:90]!r}; a fresh process reports {ref[:90]!r}")
            return ("ok", None)
        return ("bad", f"nameless module at depth {depth}, {entry}, then {cont}: the call returned normally; a fresh process reports {ref[:90]!r} (first call: {msg1[:60]!r})")
    except Exception as e:
        return ("bad", "harness: " + short_exc(e))


def _same_named_healthy(item):
    """A failed design holding two (three) different healthy modules of one name, as two libraries' `Cell`s are: after the
    failure each of them is either frozen, or an edit made to it is honoured exactly as a fresh process honours it."""
    import hdl21 as h

    ncells, fault, entry = item

    def mk_cell(k):
        m = h.Module(name="Cell")
        m.i, m.o, m.vss = h.Input(), h.Output(), h.Port()
        m.add(h.R(r=1 + k)(p=m.i, n=m.o), name="r")
        return m

    def mk_leaf():
        leaf = h.Module(name="SLeaf")
        leaf.a, leaf.z, leaf.vss = h.Input(), h.Output(), h.Port()
        leaf.r = h.R(r=9)(p=leaf.a, n=leaf.z)
        return leaf

    def edit(cell, leaf):
        cell.l1 = leaf(a=cell.i, vss=cell.vss)
        cell.l2 = leaf(a=cell.l1.z, vss=cell.vss)
        cell.l2.z = cell.o

    try:
        cells, leaf = [mk_cell(k) for k in range(ncells)], mk_leaf()
        top = h.Module(name="SNTop")
        top.vss = h.Signal()
        nets = [top.add(h.Signal(name=f"n{k}")) for k in range(ncells + 1)]
        for k, c in enumerate(cells):
            top.add(c(i=nets[k], o=nets[k + 1], vss=top.vss), name=f"c{k}")
        if fault == "missing_conn":
            top.bad = leaf(a=nets[0], vss=top.vss)
        else:
            top.wide = h.Signal(width=2)
            top.bad = leaf(a=top.wide, z=nets[0], vss=top.vss)
        try:
            (h.elaborate if entry == "elaborate" else h.to_proto)(top)
            return ("skip", "the faulty design was accepted")
        except Exception:
            pass
        for k, c in enumerate(cells):
            try:
                edit(c, leaf)
            except Exception:
                continue  # frozen
            fc, fl = mk_cell(k), mk_leaf()
            edit(fc, fl)
            ref = h.to_proto(fc).SerializeToString(deterministic=True)
            try:
                got = h.to_proto(c).SerializeToString(deterministic=True)
            except Exception as e:
                return ("bad", f"{ncells} same-named healthy cells, {fault}: the edit of cell {k} was accepted, its export then fails: {short_exc(e)[:100]}")
            if got != ref:
                return ("bad", f"{ncells} same-named healthy cells, {fault}: the edit of cell {k} was accepted, its export differs from a fresh process's")
    except Exception as e:
        return ("bad", "harness: " + short_exc(e))
    return ("ok", None)


def core(msg):
    """The informative tail of an error message (the elaboration path prefix differs between attempts)."""
    return msg.strip().splitlines()[-1][-60:]


def _gen_special(kind):
    """Generator failures that do not come from the body itself, and failures that an outer generator handles."""
    import hdl21 as h
    from typing import Any

    h.generator.cache.reset()

    @h.paramclass
    class PA:
        v = h.Param(dtype=Any, desc="anything", default=None)
        k = h.Param(dtype=int, desc="k", default=1)

    shared = h.Module(name="SharedResult")
    shared.x = h.Port()
    runs = dict(n=0)

    @h.generator
    def Fresh(p: PA) -> h.Module:
        runs["n"] += 1
        m = h.Module()
        m.x = h.Port()
        return m

    @h.generator
    def Handing(p: PA) -> h.Module:  # hands back a module that exists already
        runs["n"] += 1
        return shared

    class Opaque:  # a value the naming encoder cannot serialise: the call fails *after* the body has run
        pass

    if kind in ("unnameable_fresh", "unnameable_handed"):
        g = Fresh if kind == "unnameable_fresh" else Handing
        val = Opaque()
        errs = []
        for attempt in range(3):
            try:
                g(PA(v=val))
                errs.append("returned")
            except Exception as e:
                errs.append(type(e).__name__)
        if len(set(errs)) != 1:
            return ("bad", f"identical calls whose result cannot be named gave {errs}: the failure is not repeated")
        if errs[0] == "returned":
            return ("ok", "accepted")
        # ... and a healthy call of the same generator still works and is named as in a fresh process
        try:
            m = g(PA(v=None, k=3))
        except Exception as e:
            return ("bad", "a healthy call after the failures raises: " + short_exc(e))
        fresh_name = ("Fresh" if g is Fresh else "SharedResult")
        if not m.name.startswith(fresh_name) or "(" not in m.name:
            return ("bad", f"a healthy call after the failures returned a module named {m.name!r}")
        return ("ok", errs[0])
    if kind == "fallback":
        state = dict(fail=True)

        @h.generator
        def Flaky(p: PA) -> h.Module:
            if state["fail"]:
                raise ValueError("not available")
            m = h.Module()
            m.x = h.Port()
            return m

        @h.generator
        def Outer(p: PA) -> h.Module:  # tries the flaky implementation first, falls back to a plain one
            m = h.Module()
            m.s = h.Signal()
            try:
                m.i = Flaky(p)(x=m.s)
            except ValueError:
                m.i = Fresh(p)(x=m.s)
            return m

        try:
            m1 = Outer(PA(k=2))
            pk = h.to_proto(m1)
            m2 = Outer(PA(k=2))
        except Exception as e:
            return ("bad", "an outer generator that handles an inner failure itself fails: " + short_exc(e))
        if m1 is not m2 or len(pk.modules) != 2:
            return ("bad", "the outer generator's result is not memoised / exported as usual after a handled inner failure")
        state["fail"] = False
        try:
            h.to_proto(Flaky(PA(k=2)))
            h.to_proto(Outer(PA(k=5)))
        except Exception as e:
            return ("bad", "after a handled inner failure, later calls fail: " + short_exc(e))
        return ("ok", "handled")
    if kind in ("circular_repaired", "circular_repaired_twice", "circular_then_others"):
        # a generator that builds "whatever the registry names": while the registry points back at the call itself the call
        # fails (circular dependency); once the registry is repaired the same call runs and gives what a fresh process gives
        registry = {}

        @h.generator
        def Leaf(p: PA) -> h.Module:
            m = h.Module()
            m.x = h.Port()
            m.r = h.R(r=p.k)(p=m.x, n=m.x)
            return m

        @h.generator
        def ByRegistry(p: PA) -> h.Module:
            runs["n"] += 1
            m = h.Module()
            m.s = h.Signal()
            m.i = registry["impl"](p)(x=m.s)
            return m

        registry["impl"] = ByRegistry
        errs = []
        for attempt in range(2 if kind != "circular_repaired" else 1):
            try:
                ByRegistry(PA(k=4))
                return ("bad", "a call that depends on itself returned")
            except Exception as e:
                errs.append(short_exc(e)[:60])
        if len(set(errs)) != 1:
            return ("bad", f"the repeated circular call reports {errs}")
        registry["impl"] = Leaf
        try:
            if kind == "circular_then_others":
                other = ByRegistry(PA(k=5))
                if [x.name for x in h.to_proto(other).modules][-1] != "hv.checks.c08.ByRegistry(v=None k=5)" and "ByRegistry" not in h.to_proto(other).modules[-1].name:
                    return ("bad", "another call after the circular one is exported oddly")
            m = ByRegistry(PA(k=4))
            pk = h.to_proto(m)
        except Exception as e:
            return ("bad", "after the circular dependency was repaired, the same call still fails: " + short_exc(e))
        if len(pk.modules) != 2 or m is not ByRegistry(PA(k=4)):
            return ("bad", "the repaired call is not built / memoised as in a fresh process")
        return ("ok", "circular")
    raise ValueError(kind)


# ------------------------------------------------------------------------------------------------ generators
def _gen(item):
    import hdl21 as h

    shape, cont = item[:2]
    # what the user's code raises: an ordinary exception, or an interruption (Ctrl-C in a notebook) that is not an `Exception`
    Exc = {"ValueError": ValueError, "KeyboardInterrupt": KeyboardInterrupt}[item[2] if len(item) > 2 else "ValueError"]
    h.generator.cache.reset()
    state = dict(fail=True, runs=0)

    @h.paramclass
    class P:
        k = h.Param(dtype=int, desc="k", default=1)

    @h.generator
    def Inner(p: P) -> h.Module:
        state["runs"] += 1
        if state["fail"]:
            raise Exc("generator body failed")
        m = h.Module()
        m.x = h.Port()
        return m

    @h.generator
    def Outer(p: P) -> h.Module:
        m = h.Module()
        m.s = h.Signal()
        m.i = Inner(p)(x=m.s)
        return m

    @h.generator
    def Outer2(p: P) -> h.Module:
        m = h.Module()
        m.s = h.Signal()
        m.i = Inner(p)(x=m.s)
        m.j = Inner(k=p.k + 1)(x=m.s)
        return m

    g = {"plain": Inner, "nested": Outer, "shared": Outer2}[shape]
    try:
        g(k=1)
        return ("bad", "generator did not fail as planted")
    except Exc as e:
        pass
    except BaseException as e:
        return ("bad", "first call raised something else: " + short_exc(e))
    if cont == "retry_failing":
        try:
            g(k=1)
            return ("bad", "second call returned although the body still raises")
        except Exc:
            return ("ok", None)
        except BaseException as e:
            return ("bad", "retry reports a different error: " + short_exc(e))
    if cont == "retry_fixed":
        state["fail"] = False
        before = state["runs"]
        try:
            m = g(k=1)
        except Exception as e:
            return ("bad", "after the body stopped raising, the call still fails: " + short_exc(e))
        if state["runs"] <= before:
            return ("bad", "the body was not run again")
        try:
            h.to_proto(m)
        except Exception as e:
            return ("bad", "module of the re-run generator cannot be exported: " + short_exc(e))
        if g(k=1) is not m:
            return ("bad", "memoisation lost after the re-run")
        return ("ok", None)
    if cont == "other_params":
        state["fail"] = False
        try:
            m = g(k=5)
            h.to_proto(m)
        except Exception as e:
            return ("bad", "a call with other parameters fails after the failure: " + short_exc(e))
        return ("ok", None)
    return ("ok", None)


def run(ctx):
    # the "what a fresh process gives" references are built in pristine processes, before any worker is forked
    from . import c07 as _c07

    _c07.prefill_fresh()
    # injected faults
    items = []
    for dname, tops in (("dag1", ["T", "T2"]), ("dag2", ["P", "Q"])):
        design = dags.ALL[dname]()
        for top in tops:
            victims = [m for m in design["modules"] if contains(design, top, m)]
            for pos in range(10):  # before each of the ten default passes (a pass placed after the final marking pass visits nothing)
                for v in victims:
                    for cont in ("retry", "disarm_retry", "others", "others_parents_first", "edit_healthy"):
                        items.append((dname, top, pos, v, cont))
                    if pos in (0, 4, 6):  # the fault is an interruption (not an `Exception`) instead
                        for cont in ("retry", "others", "edit_healthy"):
                            items.append((dname, top, pos, v, cont, "interrupt"))
    res = ctx.pmap(_bomb, items, chunk=10)
    for it, (status, detail) in zip(items, res):
        ctx.count(states=1, transitions=4, traces_validated_against_impl=1)
        ctx.fam("injected", **{status: 1})
        ctx.outcome("bomb:" + status + ":" + str(detail)[:20])
        if status == "bad":
            ctx.violation(dict(fault="injected", position=it[2], continuation=it[4], what=detail[:50]), dict(kind="injected", item=list(it)), detail)
        elif status in ("no_failure", "other_failure"):
            ctx.violation(dict(fault="injected", position=it[2], continuation="-", what="harness: fault did not fire"), dict(kind="injected", item=list(it)), str(detail))
    # faults inside a subclass that replaces one of the default passes
    sitems = []
    for dname, tops in (("dag1", ["T"]), ("dag2", ["P"])):
        design = dags.ALL[dname]()
        for top in tops:
            for pos in range(10):
                for v in [m for m in design["modules"] if contains(design, top, m)]:
                    sitems.append((dname, top, pos, v))
                    sitems.append((dname, top, pos, v, "midway"))
    res = ctx.pmap(_subclass_fault, sitems, chunk=10)
    for it, (status, detail) in zip(sitems, res):
        ctx.count(states=1, transitions=3, traces_validated_against_impl=1)
        ctx.fam("subclassed_pass", **{status: 1})
        ctx.outcome("subclass:" + status + ":" + str(detail)[:16])
        if status == "bad":
            ctx.violation(dict(fault="subclassed_pass", position=it[2], continuation="export_all", what=detail[:50]), dict(kind="subclass", item=list(it)), detail)
        elif status == "no_failure":
            ctx.violation(dict(fault="subclassed_pass", position=it[2], continuation="-", what="harness: fault did not fire"), dict(kind="subclass", item=list(it)), str(detail))
    # real faults
    ritems = []
    for dname, tops in (("dag1h", ["T"]), ("dag1", ["T", "T2"]), ("dag2", ["P", "Q"])):
        for top in tops:
            base = dags.with_top(dags.ALL[dname](), top)
            n = len(mutate.classified(base))
            stride = 1 if not ctx.quick else 2
            for k in range(n):
                for entry in ("to_proto", "to_proto_list", "to_proto_list_ff") if ctx.quick else ("elaborate", "to_proto", "netlist", "to_proto_list", "to_proto_list_ff"):
                    for cont in ("retry", "others", "others_parents_first", "other_parents", "edit_healthy", "repair"):
                        if ctx.quick and dname == "dag1h" and cont != "edit_healthy":
                            continue  # dag1h adds a late healthy module to dag1: its point is what happens to that module
                        if entry == "to_proto_list" and cont not in ("edit_healthy", "others"):
                            continue
                        if entry == "to_proto_list_ff" and cont != "edit_healthy":
                            continue
                        # the other-parents continuation runs on every classified mutant in both tiers
                        if cont == "other_parents" or k % stride == ctx.seed % stride:
                            ritems.append((dname, top, k, entry, cont))
    if ctx.quick:
        ctx.cap("real design faults: every 2nd classified mutant of each DAG (offset VERIF_SEED) for the retry / others / repair continuations, entry point to_proto only, in the quick tier")
    res = ctx.pmap(_real, ritems, chunk=10)
    for it, (status, detail, cls) in zip(ritems, res):
        if status == "skip":
            continue
        ctx.count(states=1, transitions=4, traces_validated_against_impl=1)
        ctx.fam("real:" + str(cls), **{status: 1})
        ctx.outcome("real:" + status + ":" + str(detail)[:24] + ":" + it[4])
        if status == "bad":
            what = "spurious circular dependency" if "circular" in detail else detail.split(": ", 1)[-1][:50]
            ctx.violation(dict(fault=cls, continuation=it[4], what=what), dict(kind="real", item=list(it)), detail)
    # generators
    for shape, cont, exc in itertools.product(("plain", "nested", "shared"), ("retry_failing", "retry_fixed", "other_params"), ("ValueError", "KeyboardInterrupt")):
        if True:
            status, detail = _gen((shape, cont, exc))
            ctx.count(states=1, transitions=3, traces_validated_against_impl=1)
            ctx.fam("generators", **{status: 1})
            ctx.outcome("gen:" + status)
            if status == "bad":
                ctx.violation(dict(fault="generator_body", continuation=cont, what=("spurious circular dependency" if "ircular" in detail else detail[:50])), dict(kind="gen", item=[shape, cont, exc]), detail)
    for kind in ("unnameable_fresh", "unnameable_handed", "fallback", "circular_repaired", "circular_repaired_twice", "circular_then_others"):
        status, detail = _gen_special(kind)
        ctx.count(states=1, transitions=4, traces_validated_against_impl=1)
        ctx.fam("generators_special", **{status: 1})
        ctx.outcome("genspecial:" + status + ":" + str(detail)[:20])
        if status == "bad":
            ctx.violation(dict(fault="generator_" + kind, continuation="retry", what=detail[:50]), dict(kind="gen_special", item=kind), detail)
    for it in [(d, e, c) for d in (0, 1, 2) for e in ("elaborate", "to_proto") for c in ("retry", "alone", "new_parent")]:
        status, detail = _anon(it)
        ctx.count(states=1, transitions=3, traces_validated_against_impl=1)
        ctx.fam("nameless_module", **{status: 1})
        ctx.outcome("anon:" + status)
        if status == "bad":
            ctx.violation(dict(fault="nameless_module", continuation=it[2], what=("returned normally" if "returned normally" in detail else "another error")), dict(kind="anon", item=list(it)), detail)
    for it in [(n, f, e) for n in (2, 3) for f in ("missing_conn", "width") for e in ("elaborate", "to_proto")]:
        status, detail = _same_named_healthy(it)
        ctx.count(states=1, transitions=3, traces_validated_against_impl=1)
        ctx.fam("same_named_healthy_modules", **{status: 1})
        ctx.outcome("samename:" + status)
        if status == "bad":
            ctx.violation(dict(fault="same_named_healthy", continuation="edit_healthy", what=detail.split(":")[-1][:40]), dict(kind="same_named", item=list(it)), detail)
    ctx.sample(dict(kind="injected", item=list(items[len(items) // 2])))
    ctx.sample(dict(kind="real", item=list(ritems[len(ritems) // 2]) if ritems else None))
    ctx.sample(dict(kind="generator", item=["nested", "retry_fixed"]))
    ctx.assume("'the original error again' is read as: the informative tail of the first message re-appears, and no circular-dependency error appears that the first attempt did not report")


def replay(body):
    c = body["case"]
    if c["kind"] == "subclass":
        r = _subclass_fault(tuple(c["item"]))
        print("replay:", r)
        return 1 if r[0] == "bad" else 0
    if c["kind"] == "anon":
        r = _anon(tuple(c["item"]))
        print("replay:", r)
        return 1 if r[0] == "bad" else 0
    if c["kind"] == "same_named":
        r = _same_named_healthy(tuple(c["item"]))
        print("replay:", r)
        return 1 if r[0] == "bad" else 0
    if c["kind"] == "gen_special":
        r = _gen_special(c["item"])
        print("replay:", r)
        return 1 if r[0] == "bad" else 0
    it = tuple(c["item"])
    r = _bomb(it) if c["kind"] == "injected" else _real(it) if c["kind"] == "real" else _gen(it)
    print("replay:", r)
    return 1 if r[0] == "bad" else 0
