"""
C13 — parameter values reach the package unchanged (engine E2: exhaustive value box).

Every primitive of the primitive library x every field of its parameter class x a value alphabet chosen by the field's
type; external modules with `dict` and param-class parameters x every exportable value type; `to_scalar` over the same
alphabet.  Oracle: the exported ParamValue parsed with unlimited precision equals the exact input value, under the same
(or documented renamed) parameter name; None-valued parameters are omitted.
"""

import enum, itertools
from decimal import Decimal
from fractions import Fraction
from ..core import short_exc
from ..observe import PREFIX_EXP

PREFIX_EXPS = sorted(set(PREFIX_EXP.values()))
MANTS = ["0", "1", "-1", "1.50", "0.1", "1e3", "1E+3", "123456789.123456789", "1234567890123456789012345",
         "1234567890123456789012345678901234567890", "9223372036854775807", "9223372036854775808", "1E+19", "1e-30", "-0.000001",
         "1.00000000000000000001", "4503599627370496.5", "-2.0000000000000000000000001", "9007199254740993"]
INTS = [0, 1, -1, 2**31, -(2**31), 2**63 - 1, -(2**63) + 1]
FLOATS = [0.1, 1e-9, 1 / 3, 1e22, 5e-324, 2.5, -1.75e-12]
NUMSTR = ["5", "-5", "+5", "1.5", "1e3", "1E-9", ".5", "5.", "0.000000000000000000000000000001", "123456789012345678901234567890"]
TEXTSTR = ["w/5", "11*l", "abc", "1k", "a b", "sim_param_width", "x=1", " w/5", "w/5 ", " a  b "]  # text is kept to the character
VPULSE_MAP = {"delay": "td", "rise": "tr", "fall": "tf", "width": "tpw", "period": "tper", "v1": "v1", "v2": "v2"}


# the single-letter prefix symbols (SI; `D` for deca, `u` next to `µ`) and the long names
ALIAS_EXP = {"y": -24, "z": -21, "a": -18, "f": -15, "p": -12, "n": -9, "µ": -6, "u": -6, "m": -3, "c": -2, "d": -1, "D": 1, "H": 2, "K": 3, "M": 6, "G": 9,
             "T": 12, "P": 15, "E": 18, "Z": 21, "Y": 24, "YOCTO": -24, "ZEPTO": -21, "ATTO": -18, "FEMTO": -15, "PICO": -12, "NANO": -9, "MICRO": -6, "MILLI": -3,
             "CENTI": -2, "DECI": -1, "UNIT": 0, "DECA": 1, "HECTO": 2, "KILO": 3, "MEGA": 6, "GIGA": 9, "TERA": 12, "PETA": 15, "EXA": 18, "ZETTA": 21, "YOTTA": 24}


def scalar_values(quick):
    """Value specs for a Scalar-typed field."""
    out = []
    exps = PREFIX_EXPS
    for m in MANTS:
        for e in exps:
            out.append(("prefixed", m, e))
    # the other documented spellings of a prefixed number: `number * e(k)`, `number * <prefix symbol>`, `(number * p) * UNIT`
    for m in MANTS:
        for e in (-9, 0, 3):
            out += [("prefixed_e", m, e), ("prefixed_sym", m, e), ("prefixed_chain", m, e)]
    out += [("prefixed_alias", "1.50", a) for a in ALIAS_EXP]
    out += [("int", i) for i in INTS]
    out += [("float", repr(f)) for f in FLOATS]
    out += [("decimal", m) for m in MANTS]
    out += [("numstr", s) for s in NUMSTR]
    out += [("textstr", s) for s in TEXTSTR]
    out += [("literal", s) for s in TEXTSTR + ["5"]]
    return out


def mk_value(spec):
    import hdl21 as h
    from hdl21.prefix import Prefix

    k = spec[0]
    if k == "prefixed":
        return h.Prefixed(number=Decimal(spec[1]), prefix=Prefix.from_exp(spec[2]))
    if k == "prefixed_alias":
        import hdl21.prefix as hpfx

        import unicodedata

        return Decimal(spec[1]) * getattr(hpfx, unicodedata.normalize("NFKC", spec[2]))  # identifiers are NFKC-normalised (the micro sign)
    if k == "prefixed_e":
        from hdl21.prefix import e as hexp

        return Decimal(spec[1]) * hexp(spec[2])
    if k == "prefixed_sym":
        return Decimal(spec[1]) * Prefix.from_exp(spec[2])
    if k == "prefixed_chain":
        return (Decimal(spec[1]) * Prefix.from_exp(spec[2])) * Prefix.UNIT
    if k == "int":
        return spec[1]
    if k == "float":
        return float(spec[1])
    if k == "decimal":
        return Decimal(spec[1])
    if k in ("numstr", "textstr", "str"):
        return spec[1]
    if k == "literal":
        return h.Literal(spec[1])
    if k == "none":
        return None
    raise ValueError(spec)


class Corner(enum.Enum):
    """A designer's string-valued enum whose member names differ from their values."""
    TYPICAL = "tt"
    FAST = "ff_1p98v"
    SAME = "SAME"
    lower = "LOWER"


class CornerS(str, enum.Enum):
    """The same, as a str-mixin enum (whose members *are* strings)."""
    TYPICAL = "tt"
    FAST = "ff_1p98v"
    SAME = "SAME"
    lower = "LOWER"


def expected(spec, scalar_field=True):
    """What the exported parameter must denote: ("num", {acceptable Fractions}, prefix-exp or None) | ("text", s) | ("absent",)."""
    k = spec[0]
    if k in ("prefixed", "prefixed_e", "prefixed_sym", "prefixed_chain"):
        return ("num", {Fraction(spec[1]) * Fraction(10) ** spec[2]}, spec[2])
    if k == "prefixed_alias":
        return ("num", {Fraction(spec[1]) * Fraction(10) ** ALIAS_EXP[spec[2]]}, ALIAS_EXP[spec[2]])
    if k == "int":
        return ("num", {Fraction(spec[1])}, None)
    if k == "float":
        f = float(spec[1])
        return ("num", {Fraction(f), Fraction(repr(f))}, None)
    if k == "decimal":
        return ("num", {Fraction(spec[1])}, None)
    if k == "numstr":
        return ("num", {Fraction(spec[1])}, None) if scalar_field else ("text", spec[1])
    if k in ("textstr", "literal", "str"):
        return ("text", spec[1])
    if k in ("enum", "enum_s"):
        return ("text", spec[1])
    if k == "none":
        return ("absent",)
    raise ValueError(spec)


def observed(pv):
    """Exact reading of a vlsir ParamValue: ("num", Fraction, prefix-exp or None) | ("text", s)."""
    import vlsir

    w = pv.WhichOneof("value")
    if w == "int64_value":
        return ("num", Fraction(pv.int64_value), None)
    if w == "double_value":
        return ("num", Fraction(pv.double_value), None)
    if w == "string_value":
        return ("text", pv.string_value)
    if w == "literal":
        return ("text", pv.literal)
    if w == "prefixed":
        p = pv.prefixed
        e = PREFIX_EXP[vlsir.SIPrefix.Name(p.prefix)]
        ww = p.WhichOneof("number")
        num = Fraction(p.int64_value) if ww == "int64_value" else Fraction(p.double_value) if ww == "double_value" else Fraction(p.string_value)
        return ("num", num * Fraction(10) ** e, e)
    return ("none",)


def matches(exp, obs):
    if exp[0] == "absent":
        return obs is None
    if obs is None:
        return False
    if exp[0] == "text":
        if obs[0] == "text":
            return obs[1] == exp[1]
        return False
    # numeric
    if obs[0] == "num":
        if obs[1] not in exp[1]:
            return False
        if exp[2] is not None and obs[2] != exp[2]:
            return False  # a prefixed number keeps its prefix
        return True
    if obs[0] == "text":  # e.g. a raw Decimal exported as its exact decimal text
        try:
            return Fraction(obs[1]) in exp[1]
        except Exception:
            return False
    return False


def field_plan():
    """[(prim name, field, kind)] over the whole primitive library; kind in scalar|str|enum:<members>."""
    from hdl21 import primitives as hp
    from hdl21.scalar import Scalar
    from typing import Optional

    plan = []
    for name, entry in hp._primitives.items():
        prim = entry.prim
        for fname, param in prim.paramtype.__params__.items():
            dt = param.dtype
            if dt in (Scalar, Optional[Scalar]):
                kind = "scalar"
            elif dt in (str, Optional[str]):
                kind = "str"
            elif isinstance(dt, type) and issubclass(dt, enum.Enum):
                kind = "enum:" + ",".join(m.name for m in dt)
            else:
                kind = "other:" + repr(dt)
            optional = dt in (Optional[Scalar], Optional[str])
            plan.append((name, fname, kind, optional))
    return plan


def _prim_case(item):
    import hdl21 as h
    from hdl21 import primitives as hp

    pname, fname, kind, spec = item
    prim = hp._primitives[pname].prim
    kw = {}
    for fn, param in prim.paramtype.__params__.items():
        from hdl21.default import Default

        if param.default is Default and param.default_factory is Default and fn != fname:
            kw[fn] = 1
    try:
        if spec[0] == "enum":
            dt = prim.paramtype.__params__[fname].dtype
            kw[fname] = dt[spec[2]]
        else:
            kw[fname] = mk_value(spec)
        try:
            call = prim(**kw)
        except Exception as e:
            # a value check of the parameter class itself (e.g. Bipolar rejects w <= 0): the value was never "given"
            if ("ValueError" in type(e).__name__ or "alidation" in type(e).__name__ or "RuntimeError" in type(e).__name__) and "invalid" in str(e).lower():
                return ("ok", "rejected_by_param_validation")
            raise
        m = h.Module(name="T")
        conns = {}
        for p in prim.port_list:
            conns[p.name] = m.add(h.Signal(name="s_" + p.name))
        m.add(h.Instance(name="x", of=call)(**conns))
        pkg = h.to_proto(m)
    except Exception as e:
        return ("raised", short_exc(e))
    inst = pkg.modules[-1].instances[0]
    params = {p.name: p.value for p in inst.parameters}
    ideal = prim.primtype == hp.PrimitiveType.IDEAL
    ename = VPULSE_MAP.get(fname, fname) if pname == "PulseVoltageSource" else fname
    obs = observed(params[ename]) if ename in params else None
    exp = expected(spec, scalar_field=(kind == "scalar"))
    # the primitive must also be exported under its documented VLSIR name / domain
    dom = inst.module.external.domain
    if ideal and dom != "vlsir.primitives" or (not ideal and dom != "hdl21.primitives"):
        return ("bad", f"exported into domain {dom!r}")
    if not matches(exp, obs):
        return ("bad", f"expected {show(exp)} under name {ename!r}, package has {show(obs)} (all params {sorted(params)})")
    return ("ok", obs[0] if obs else "absent")


def show(x):
    if x is None:
        return "nothing"
    if x[0] == "num":
        v = x[1]
        return f"num({sorted(map(str, v)) if isinstance(v, set) else v}, prefix={x[2]})"
    return repr(x)


def _ext_case(item):
    import hdl21 as h

    style, spec = item
    try:
        v = Corner[spec[2]] if spec[0] == "enum" else CornerS[spec[2]] if spec[0] == "enum_s" else mk_value(spec)
        ports = [h.Port(name="a"), h.Port(name="b")]
        if style == "dict":
            e = h.ExternalModule(name="E", port_list=ports, paramtype=dict, domain="hv")
            call = e(dict(p=v, q=1))
        else:
            @h.paramclass
            class EP:
                p = h.Param(dtype=h.Scalar if style == "pc_scalar" else object, desc="p", default=None) if False else h.Param(dtype=(h.Scalar if style == "pc_scalar" else type(v) if v is not None else type(None)), desc="p")
                q = h.Param(dtype=int, desc="q", default=1)

            e = h.ExternalModule(name="E", port_list=ports, paramtype=EP, domain="hv")
            call = e(EP(p=v))
        m = h.Module(name="T")
        sa, sb = m.add(h.Signal(name="sa")), m.add(h.Signal(name="sb"))
        m.add(h.Instance(name="x", of=call)(a=sa, b=sb))
        pkg = h.to_proto(m)
    except Exception as e:
        return ("raised", short_exc(e))
    inst = pkg.modules[-1].instances[0]
    params = {p.name: p.value for p in inst.parameters}
    obs = observed(params["p"]) if "p" in params else None
    exp = expected(spec, scalar_field=(style == "pc_scalar"))
    if not matches(exp, obs):
        return ("bad", f"expected {show(exp)}, package has {show(obs)}")
    if "q" not in params or observed(params["q"])[1] != 1:
        return ("bad", "sibling parameter q lost")
    return ("ok", obs[0] if obs else "absent")


def _ext_vpulse(vals):
    """An external module whose parameter class happens to be the pulse source's: its parameter names are *its own*
    (the documented renaming applies to the ideal primitive only)."""
    import hdl21 as h

    try:
        e = h.ExternalModule(name="EP", port_list=[h.Port(name="a"), h.Port(name="b")], paramtype=h.primitives.PulseVoltageSourceParams, domain="hv")
        kw = dict(zip(("delay", "v1", "v2", "period", "rise", "fall", "width"), vals))
        m = h.Module(name="T")
        sa, sb = m.add(h.Signal(name="sa")), m.add(h.Signal(name="sb"))
        m.add(h.Instance(name="x", of=e(**kw))(a=sa, b=sb))
        pkg = h.to_proto(m)
    except Exception as ex:
        return ("raised", short_exc(ex))
    params = {p.name: p.value for p in pkg.modules[-1].instances[0].parameters}
    for k, v in kw.items():
        if k not in params:
            return ("bad", f"parameter {k!r} of an external module exported as {sorted(params)}")
        obs = observed(params[k])
        if obs[0] != "num" or obs[1] != Fraction(v):
            return ("bad", f"parameter {k!r}={v} exported as {show(obs)}")
    if set(params) - set(kw) - {"ac"} - set(VPULSE_MAP):
        return ("bad", f"unexpected parameters {sorted(set(params) - set(kw))}")
    return ("ok", "num")


def _scalar_case(spec):
    import hdl21 as h
    from hdl21.scalar import to_scalar

    try:
        r = to_scalar(mk_value(spec))
    except Exception as e:
        return ("raised", short_exc(e))
    exp = expected(spec)
    if exp[0] == "num":
        if not isinstance(r, h.Prefixed):
            return ("bad", f"numeric input became {type(r).__name__}")
        v = Fraction(r.number) * Fraction(10) ** r.prefix.value
        if v not in exp[1] or (exp[2] is not None and r.prefix.value != exp[2]):
            return ("bad", f"value {v} (prefix {r.prefix.value}) not in {sorted(map(str, exp[1]))}")
        return ("ok", "prefixed")
    if not isinstance(r, h.Literal) or r.text != exp[1]:
        return ("bad", f"text input became {r!r}")
    return ("ok", "literal")


def run(ctx):
    plan = field_plan()
    sv = scalar_values(ctx.quick)
    prim_items = []
    for pname, fname, kind, optional in plan:
        if kind == "scalar":
            vals = list(sv)
        elif kind == "str":
            vals = [("str", s) for s in TEXTSTR + NUMSTR[:3]]
        elif kind.startswith("enum:"):
            vals = [("enum", m, m) for m in kind[5:].split(",")]
        else:
            ctx.fam("unhandled_field_type:" + kind, fields=1)
            continue
        if optional:
            vals.append(("none",))
        if ctx.quick and kind == "scalar":
            # quick: the full scalar alphabet on one field per primitive, prefix x mantissa corners on the others
            first = not any(it[0] == pname and it[2] == "scalar" for it in prim_items)
            if not first:
                vals = [v for v in vals if v[0] != "prefixed" or v[2] in (-24, -9, 0, 3, 24)]
        for v in vals:
            prim_items.append((pname, fname, kind, v))
    res = ctx.pmap(_prim_case, prim_items, chunk=100)
    for it, r in zip(prim_items, res):
        account(ctx, "primitive", it[0], it[1], it[3], r)
    ext_items = []
    for style in ("dict", "pc_scalar", "pc_typed"):
        for v in sv:
            if style == "pc_typed" and v[0] in ("none",):
                continue
            ext_items.append((style, v))
        ext_items.append((style, ("none",))) if style == "dict" else None
    ext_items = [x for x in ext_items if x is not None]
    # string-valued enums reach the package as the member's value
    ext_items += [(style, ("enum", m.value, m.name)) for style in ("dict", "pc_typed") for m in Corner]
    ext_items += [(style, ("enum_s", m.value, m.name)) for style in ("dict", "pc_typed") for m in CornerS]
    res = ctx.pmap(_ext_case, ext_items, chunk=100)
    for it, r in zip(ext_items, res):
        account(ctx, "external:" + it[0], "E", "p", it[1], r)
    for vals in ((1, 2, 3, 4, 5, 6, 7), (0, 0, 1, 8, 2, 3, 4), (7, 6, 5, 4, 3, 2, 1)):
        account(ctx, "external:vpulse_params", "EP", "*", ("int", str(vals)), _ext_vpulse(vals))
    for it in [(sh, form) for sh in ("Nmos", "Pmos", "Npn", "Pnp") for form in ("kw", "obj", "obj_other_tp", "none")]:
        account(ctx, "shorthand", it[0], it[1], ("shorthand",) + it, _shorthand_case(it))
    from hdl21 import primitives as _hp

    for it in [("primitive", pn) for pn in _hp._primitives] + [("external", "EU")]:
        account(ctx, "unknown_parameter", it[1], "-", ("unknown",) + it, _unknown_case(it))
    many = [(o, w) for w in ("prim", "ext") for o in itertools.permutations(range(len(SPELLINGS)), 2)] + [(tuple(range(len(SPELLINGS))), w) for w in ("prim", "ext")] + [(tuple(reversed(range(len(SPELLINGS)))), w) for w in ("prim", "ext")]
    for it in many:  # in one process, one after the other: nothing carries over from one package to the next either
        account(ctx, "many_instances", "R" if it[1] == "prim" else "EM", "-", ("many", list(it[0]), it[1]), _many_case(it))
    sc_items = [v for v in sv]
    res = ctx.pmap(_scalar_case, sc_items, chunk=100)
    for it, r in zip(sc_items, res):
        account(ctx, "to_scalar", "-", "-", it, r)
    ctx.sample(dict(primitive=prim_items[0][0], field=prim_items[0][1], value=prim_items[0][3]))
    ctx.sample(dict(primitive=prim_items[len(prim_items) // 2][0], field=prim_items[len(prim_items) // 2][1], value=prim_items[len(prim_items) // 2][3]))
    ctx.sample(dict(external="dict", value=ext_items[7][1]))
    ctx.extra["primitive_fields"] = len(plan)
    ctx.assume("floats may be exported either as their shortest-repr decimal or their exact binary value",
               "plain int parameters beyond 64 bits and ambiguous numeric spellings (' 5', '1_0', 'nan') are outside the alphabet")


def _shorthand_case(item):
    """h.Nmos / h.Pmos / h.Npn / h.Pnp are the generic primitive with the type filled in: whatever way the other parameters
    are given (keywords, a parameter object, nothing), the exported instance equals that of the explicit call."""
    import hdl21 as h
    from hdl21 import primitives as hp

    short, form = item
    base, tp = {"Nmos": (h.Mos, h.MosType.NMOS), "Pmos": (h.Mos, h.MosType.PMOS), "Npn": (h.Bipolar, hp.BipolarType.NPN), "Pnp": (h.Bipolar, hp.BipolarType.PNP)}[short]
    kw = dict(w=3 * h.prefix.µ, l=Decimal("0.15"), nf=4, model="mdl") if base is h.Mos else dict(w=2 * h.prefix.µ, l=1 * h.prefix.µ, model="qmdl")
    try:
        ctor = getattr(h, short)
        if form == "kw":
            call = ctor(**kw)
        elif form == "obj":
            call = ctor(base.paramtype(**kw))
        elif form == "obj_other_tp":  # the parameter object says otherwise: the constructor's type wins
            other = [m for m in type(tp) if m is not tp][0]
            call = ctor(base.paramtype(tp=other, **kw))
        else:
            kw = {}
            call = ctor()
        want = base(tp=tp, **kw)
        pk = []
        for c in (call, want):
            m = h.Module(name="T")
            conns = {p.name: m.add(h.Signal(name="s_" + p.name)) for p in base.port_list}
            m.add(h.Instance(name="x", of=c)(**conns))
            pk.append(h.to_proto(m).modules[-1].instances[0])
        if pk[0] != pk[1]:
            got = {p.name: str(p.value).strip() for p in pk[0].parameters}
            exp = {p.name: str(p.value).strip() for p in pk[1].parameters}
            diff = sorted(k for k in set(got) | set(exp) if got.get(k) != exp.get(k))
            return ("bad", f"h.{short} ({form}) exports {[(k, got.get(k)) for k in diff]} where the explicit call exports {[(k, exp.get(k)) for k in diff]}")
    except Exception as e:
        return ("raised", short_exc(e))
    return ("ok", "shorthand")


def _unknown_case(item):
    """A parameter the primitive / parameter class does not have (a misspelt name): refused, or exported under that name -
    never accepted and dropped."""
    import hdl21 as h
    from hdl21 import primitives as hp
    from hdl21.default import Default

    where, pname = item
    try:
        if where == "primitive":
            prim = hp._primitives[pname].prim
            kw = {fn: 1 for fn, param in prim.paramtype.__params__.items() if param.default is Default and param.default_factory is Default}
            first = list(prim.paramtype.__params__)[0]
            kw[first + "x"] = 5  # e.g. `wx`, `rx`, `dcx`
            ports = prim.port_list
            ctor = prim
        else:
            @h.paramclass
            class EP:
                w = h.Param(dtype=h.Scalar, desc="w", default=1)

            ctor = h.ExternalModule(name="EU", port_list=[h.Port(name="a")], paramtype=EP, domain="hv")
            kw = dict(w=2, wx=5)
            ports = ctor.port_list
        try:
            call = ctor(**kw)
        except Exception:
            return ("ok", "unknown_refused")
        m = h.Module(name="T")
        conns = {p.name: m.add(h.Signal(name="s_" + p.name)) for p in ports}
        m.add(h.Instance(name="x", of=call)(**conns))
        names = [p.name for p in h.to_proto(m).modules[-1].instances[0].parameters]
        given = [k for k in kw if k.endswith("x")][0]
        if given not in names:
            return ("bad", f"the given parameter {given!r}=5 was accepted and is not on the exported instance (parameters {names})")
    except Exception as e:
        return ("raised", short_exc(e))
    return ("ok", "unknown_exported")


SPELLINGS = [("prefixed", "1.50", 3), ("int", 1500), ("float", "1500.0"), ("prefixed", "1500", 0), ("decimal", "1500"), ("prefixed", "1500000", -3), ("numstr", "1500"), ("decimal", "1.5E+3")]


def _many_case(item):
    """Several instances in one package whose parameters have the same value written differently: each keeps its own spelling
    (digits, prefix, number type), whatever its neighbours are and whatever was exported before."""
    import hdl21 as h

    order, where = item
    try:
        ext = h.ExternalModule(name="EM", port_list=[h.Port(name="a")], paramtype=dict, domain="hv")
        m = h.Module(name="Many")
        m.s = h.Signal()
        singles = []
        for k in order:
            spec = SPELLINGS[k]
            v = mk_value(spec)
            call = h.R(r=v) if where == "prim" else ext(dict(p=v))
            m.add(h.Instance(name=f"x{k}", of=call)(**({"p": m.s, "n": m.s} if where == "prim" else {"a": m.s})))
        pkg = h.to_proto(m)
        for pi in pkg.modules[-1].instances:
            k = int(pi.name[1:])
            exp = expected(SPELLINGS[k], scalar_field=(where == "prim"))
            pv = {p.name: p.value for p in pi.parameters}[("r" if where == "prim" else "p")]
            if not matches(exp, observed(pv)):
                return ("bad", f"instance {pi.name}, given {SPELLINGS[k]}, exports {observed(pv)} next to {[SPELLINGS[j] for j in order if j != k]}")
    except Exception as e:
        return ("raised", short_exc(e))
    return ("ok", "many")


def account(ctx, where, pname, fname, spec, r):
    ctx.count(states=1, transitions=2, traces_validated_against_impl=1)
    ctx.fam(where, cases=1)
    ctx.outcome(where.split(":")[0] + ":" + r[0] + ":" + str(r[1])[:20] if r[0] == "ok" else where + ":" + r[0])
    if r[0] == "ok":
        return
    vt = spec[0]
    big = False
    if vt in ("prefixed", "decimal"):
        try:
            big = abs(Fraction(spec[1])) >= 2**63 and Fraction(spec[1]).denominator == 1
        except Exception:
            pass
    sig = dict(where=where.split(":")[0], value_type=vt, result=r[0], integral_beyond_int64=big)
    if r[0] == "raised":
        sig["exc_type"] = r[1].split(":")[0]
    ctx.violation(sig, dict(where=where, primitive=pname, field=fname, value=spec), r[1])


def replay(body):
    c = body["case"]
    spec = tuple(c["value"])
    if c["where"] == "shorthand":
        r = _shorthand_case((spec[1], spec[2]))
    elif c["where"] == "unknown_parameter":
        r = _unknown_case((spec[1], spec[2]))
    elif c["where"] == "many_instances":
        r = _many_case((tuple(spec[1]), spec[2]))
    elif c["where"] == "primitive":
        kind = [k for (p, f, k, o) in field_plan() if p == c["primitive"] and f == c["field"]][0]
        r = _prim_case((c["primitive"], c["field"], kind, spec))
    elif c["where"] == "external:vpulse_params":
        import ast

        r = _ext_vpulse(ast.literal_eval(spec[1]))
    elif c["where"].startswith("external"):
        r = _ext_case((c["where"].split(":")[1], spec))
    else:
        r = _scalar_case(spec)
    print("replay:", r)
    return 0 if r[0] == "ok" else 1
