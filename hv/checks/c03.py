"""
C03 — indexing and concatenation follow Python sequence semantics (engine E2: exhaustive value box).

For every parent kind (Signal, Slice, Concat, port reference, bundle reference; nested parents at depth 2), every width
W in 1..Wmax, every int index in [-2W, 2W] and every slice(start, stop, step) with start, stop in {None} ∪ [-2W, 2W] and
step in {None, ±1..±W}:  the oracle is Python's own list indexing of list(range(W)).
"""

import itertools
from .. import refsem, observe
from ..core import short_exc
from ..families.base import *
from ..families.f4_bundles import bref


def parents(W, tier):
    """(kind, parent Expr of width W, extra decls needed in Top).  Parent bits are all observable through probes."""
    out = []
    out.append(("signal", sig(f"a{W}"), "unit"))
    out.append(("slice", rng(sig(f"b{W + 2}"), 1, W + 1), "unit"))
    for k in range(1, W):
        out.append((f"concat{k}+{W-k}", cat(sig(f"a{k}"), sig(f"c{W - k}")), "unit"))
    if W >= 2:
        out.append(("concat_of_slices", cat(rng(sig(f"b{W + 2}"), 2, 3), rng(sig(f"b{W + 2}"), 0, W - 1)), "unit"))
    if W >= 3:
        # a part that is itself a multi-part concatenation, and one that is a part-spanning slice of a concatenation
        out.append(("concat_of_concat", cat(cat(sig("a1"), sig(f"c{W - 2}")), rng(sig(f"b{W + 2}"), 0, 1)) if W - 2 >= 1 else None, "unit"))
        out.append(("concat_with_spanning_slice", cat(rng(cat(sig(f"a{W - 1}"), sig("c1")), 1, W), rng(sig(f"b{W + 2}"), 3, 4)), "unit"))
    out = [o for o in out if o[1] is not None]
    out.append(("portref", pref("j", "a"), "unit"))
    out.append(("bundleref", bref("bb", "m"), "unit"))
    # nested, non-unit-step inner parents: everything on top of them is raise-or-correct
    out.append(("slice_of_reversed", rng(sig(f"a{W}"), None, None, -1), "nonunit"))
    if W >= 1:
        out.append(("slice_of_strided", rng(sig(f"d{2 * W}"), None, None, 2), "nonunit"))
    return out


def top_design(W, parent_expr, index, portw):
    """Top holding every signal the parent kinds may use (all probed), an instance j whose port a(W) can be referenced,
    a bundle instance bb with member m(W), and a leaf `u` of width `portw` fed by parent[index]."""
    exts = {}
    decls = []
    sigs = {f"a{W}": W, f"b{W + 2}": W + 2, f"d{2 * W}": 2 * W}
    for k in range(1, W):
        sigs[f"a{k}"] = k
        sigs[f"c{W - k}"] = W - k
    for n, w in sigs.items():
        decls.append(("sig", n, w))
        exts[f"P{w}"] = ext_leaf([("a", w)])
        decls.append(probe("p_" + n, n, w, 1))
    bundles = {"BM": {"sigs": [("m", W, "sig")], "subs": []}}
    decls.append(("binst", "bb", "BM"))
    exts[f"P{W}"] = ext_leaf([("a", W)])
    decls.append(("inst", "pbb", ("ext", f"P{W}", {"k": 2}), [("a", bref("bb", "m"))]))
    inner, en, ed = leaf_module("J", [("a", W)], tag=3)
    exts[en] = ed
    decls.append(("inst", "j", ("mod", "J"), [("a", sig(f"a{W}"))] if "pref" not in repr(parent_expr) else []))
    e = ("idx", parent_expr, index) if isinstance(index, int) else ("rng", parent_expr, index[0], index[1], index[2])
    exts[f"U{portw}"] = ext_leaf([("a", portw)])
    decls.append(("inst", "u", ("ext", f"U{portw}", {"k": 4}), [("a", e)]))
    top = {"name": "Top", "style": "proc", "decls": decls}
    return {"bundles": bundles, "exts": exts, "modules": {"J": inner, "Top": top}, "top": "Top", "clamp": True}


def classify(W, index, inner_class):
    """Python's verdict on list(range(W))[index]: (class, selected positions)."""
    L = list(range(W))
    if isinstance(index, int):
        if -W <= index < W:
            return ("must_accept" if inner_class == "unit" else "raise_or_correct"), [L[index]]
        return "must_reject", []
    a, b, s = index
    if s == 0:
        return "must_reject", []
    sel = L[slice(a, b, s)]
    if not sel:
        return "must_reject", []
    inb = all(x is None or -W <= x <= W for x in (a, b))
    if not inb:
        return "raise_or_correct", sel
    if s in (None, 1) and inner_class == "unit":
        return "must_accept", sel
    return "raise_or_correct", sel


def indices(W):
    for i in range(-2 * W, 2 * W + 1):
        yield i
    bounds = [None] + list(range(-2 * W, 2 * W + 1))
    steps = [None] + [s for s in range(-W, W + 1)]
    for a in bounds:
        for b in bounds:
            for s in steps:
                yield (a, b, s)


def _one(item):
    import hdl21 as h
    from ..build import build

    W, pk, pexpr, pclass, index = item
    cls, sel = classify(W, index, pclass)
    portw = len(sel) if sel else 1
    design = top_design(W, pexpr, index, portw)
    rep = dict(cls=cls, sel=sel, stages={})
    # stage 1: build (the [] operator itself)
    try:
        built = build(design)
    except Exception as e:
        rep["stages"]["build"] = short_exc(e)
        return verdict(item, rep, design)
    s = built.objs[("Top", "u")].conns["a"]
    # stage 2: width / bounds
    try:
        rep["width"] = s.width
        rep["top"], rep["bot"], rep["step"] = s.top, s.bot, s.step
    except Exception as e:
        rep["stages"]["width"] = short_exc(e)
    # stage 3: elaborate + export
    try:
        pkg = h.to_proto(built.top)
    except Exception as e:
        rep["stages"]["export"] = short_exc(e)
        return verdict(item, rep, design)
    try:
        odev, opart = observe.O_pkg(pkg, design)
        rep["pkg"] = "ok"
    except observe.Malformed as e:
        rep["pkg"] = "malformed: " + str(e)
        return verdict(item, rep, design)
    if sel:
        rdev, rpart = refsem.R(design)
        rep["agree"] = opart == rpart and observe.devices_agree(rdev, odev) is None
        if not rep["agree"]:
            rep["diff"] = observe.partition_diff(rpart, opart)
    return verdict(item, rep, design)


def _pair(item):
    """Two slices of one signal, with the same lowest and highest bit but another stride or direction, connected in one
    module: each must select its own bits (or the design be refused)."""
    import hdl21 as h
    from ..build import build

    W, ia, ib = item
    bits = list(range(W))
    sa, sb = bits[slice(*ia)], bits[slice(*ib)]
    design = top_design(W, sig(f"a{W}"), ia, len(sa))
    top = design["modules"]["Top"]
    design["exts"][f"U{len(sb)}"] = ext_leaf([("a", len(sb))])
    top["decls"] = list(top["decls"]) + [("inst", "u2", ("ext", f"U{len(sb)}", {"k": 5}), [("a", ("rng", sig(f"a{W}"), ib[0], ib[1], ib[2]))])]
    try:
        pkg = h.to_proto(build(design).top)
    except Exception as e:
        return None  # refused: allowed for non-unit strides
    try:
        odev, opart = observe.O_pkg(pkg, design)
        rdev, rpart = refsem.R(design)
    except Exception as e:
        return "package of a two-slice design cannot be read: " + short_exc(e)
    if opart != rpart or observe.devices_agree(rdev, odev):
        return f"a[{ia}] and a[{ib}] of a {W}-bit signal in one module: exported bits differ from Python's selections {sa} and {sb}"
    return None


def _resized(item):
    """A parent whose width was looked at, one of whose signals is then re-sized, and which is indexed after that: the
    index is judged against the list of the parent's bits as they are when it is taken."""
    import hdl21 as h

    kind, W1, W2, Wb, index = item
    m = h.Module(name="Top")
    m.a, m.b = h.Signal(width=W1), h.Signal(width=Wb)
    par = {"concat_ab": lambda: h.Concat(m.a, m.b), "concat_ba": lambda: h.Concat(m.b, m.a), "signal": lambda: m.a,
           "concat_of_concat": lambda: h.Concat(h.Concat(m.b, m.a), m.b)}[kind]()
    la, lb = [("a", i) for i in range(W2)], [("b", i) for i in range(Wb)]
    bits = {"concat_ab": la + lb, "concat_ba": lb + la, "signal": la, "concat_of_concat": lb + la + lb}[kind]
    if par.width != len(bits) - W2 + W1:
        return "harness: unexpected initial width"
    m.a.width = W2
    cls, pos = classify(len(bits), index, "unit")
    want = [bits[k] for k in pos]
    try:
        e = par[index] if isinstance(index, int) else par[slice(*index)]
        U = h.ExternalModule(name=f"U{len(want) or 1}", port_list=[h.Port(name="a", width=len(want) or 1)], paramtype=dict, domain="hv")
        m.u = U(dict())(a=e)
        width = e.width
        pkg = h.to_proto(m)
    except Exception as ex:
        return None if cls != "must_accept" else f"{kind}[{index}] after re-sizing a part ({W1}->{W2} bits): in-range index rejected: {short_exc(ex)}"
    pm = [x for x in pkg.modules if x.name.endswith("Top")][0]
    widths = {s_.name: s_.width for s_ in pm.signals}

    def tbits(t):
        k = t.WhichOneof("stype")
        if k == "sig":
            return [(t.sig, i) for i in range(widths[t.sig])]
        if k == "slice":
            return [(t.slice.signal, i) for i in range(t.slice.bot, t.slice.top + 1)]
        return [x for part in reversed(t.concat.parts) for x in tbits(part)]

    got = tbits([c for c in pm.instances[0].connections if c.portname == "a"][0].target)
    if any(not (0 <= i < widths[n]) for n, i in got):
        return f"{kind}[{index}] after re-sizing a part ({W1}->{W2} bits): the package names a bit outside its signal: {got}"
    if cls == "must_reject":
        return f"{kind}[{index}] after re-sizing a part ({W1}->{W2} bits): ill-formed index accepted"
    if width != len(want) or got != want:
        return f"{kind}[{index}] after re-sizing a part ({W1}->{W2} bits): width {width}, exported {got}; Python selects {want}"
    return None


def resized_items(quick):
    out = []
    for kind in ("concat_ab", "concat_ba", "signal", "concat_of_concat"):
        for W1 in (1, 2, 3):
            for W2 in (1, 2, 3, 4):
                for Wb in (1, 2):
                    if W1 == W2 or (quick and Wb == 2 and kind != "concat_ab"):
                        continue
                    W = {"concat_ab": W2 + Wb, "concat_ba": W2 + Wb, "signal": W2, "concat_of_concat": W2 + 2 * Wb}[kind]
                    for index in indices(W):
                        if isinstance(index, int) or index[2] in (None, 1, -1):
                            out.append((kind, W1, W2, Wb, index))
    return out


def pair_items(W):
    """All ordered pairs of distinct selections (one spelling each) that share their lowest and highest bit."""
    bits = list(range(W))
    reps = {}
    for index in indices(W):
        if isinstance(index, int):
            continue
        try:
            sel = tuple(bits[slice(*index)])
        except Exception:
            continue
        if len(sel) >= 2 and all(b is None or -W <= b <= W for b in index[:2]):
            reps.setdefault(sel, index)
    out = []
    for sa, ia in reps.items():
        for sb, ib in reps.items():
            if sa != sb and min(sa) == min(sb) and max(sa) == max(sb):
                out.append((W, ia, ib))
    return out


def verdict(item, rep, design):
    """None if the property holds on this case, else (signature, detail)."""
    W, pk, pexpr, pclass, index = item
    cls, sel, st = rep["cls"], rep["sel"], rep["stages"]
    raised = bool(st)
    exported = "pkg" in rep
    kindname = pk.rstrip("0123456789+")
    sig_ = dict(parent=kindname, index="int" if isinstance(index, int) else "slice", cls=cls)
    bad = None
    if exported and rep["pkg"] != "ok":
        bad = "package names a bit outside its signal / is malformed"
    elif cls == "must_reject":
        if exported:
            bad = "ill-formed index accepted: a package was returned"
    elif cls == "must_accept":
        if raised:
            bad = "in-range index / unit-step range rejected at " + ",".join(st)
        elif rep.get("width") != len(sel):
            bad = f"reported width {rep.get('width')} != {len(sel)} selected bits"
        elif not rep.get("agree"):
            bad = "exported bits differ from Python's selection"
    else:  # raise_or_correct
        if "width" in rep and rep["width"] != len(sel) and exported:
            bad = f"reported width {rep['width']} != {len(sel)} selected bits, and a package was returned"
        elif exported and not rep.get("agree"):
            bad = "exported bits differ from Python's selection"
    outcome = ("raise:" + ",".join(sorted(st))) if raised else "ok"
    if bad is None:
        return None, outcome, cls
    sig_["what"] = bad.split(":")[0][:60] if cls != "must_accept" else bad[:40]
    return (sig_, dict(W=W, parent=pk, parent_expr=pexpr, index=index, report=rep, design=design), bad), outcome, cls


def run(ctx):
    Wmax = 4 if ctx.quick else 6
    items = []
    for W in range(1, Wmax + 1):
        for pk, pexpr, pclass in parents(W, ctx.tier):
            if not ctx.quick and W > 4 and pclass != "unit":
                continue
            for index in indices(W):
                items.append((W, pk, pexpr, pclass, index))
    ctx.extra["box"] = f"W in 1..{Wmax}; int index in [-2W,2W]; slice start/stop in {{None}} u [-2W,2W], step in {{None}} u [-W..W]"
    results = ctx.pmap(_one, items, chunk=200)
    for item, (viol, outcome, cls) in zip(items, results):
        ctx.count(states=1, transitions=3, traces_validated_against_impl=1)
        ctx.fam(item[1].rstrip("0123456789+"), cases=1)
        ctx.fam("class:" + cls, cases=1)
        ctx.outcome(cls + ":" + outcome)
        if viol:
            sig_, case, bad = viol
            ctx.violation(sig_, case, bad)
    pitems = [it for W in range(2, Wmax + 1) for it in pair_items(W)]
    for it, bad in zip(pitems, ctx.pmap(_pair, pitems, chunk=50)):
        ctx.count(states=1, transitions=3, traces_validated_against_impl=1)
        ctx.fam("two_slices_one_module", cases=1)
        if bad:
            ctx.violation(dict(parent="signal", index="two slices", cls="raise_or_correct", what="two slices of one signal in one module"), dict(pair=[it[0], list(it[1]), list(it[2])]), bad)
    ritems = resized_items(ctx.quick)
    for it, bad in zip(ritems, ctx.pmap(_resized, ritems, chunk=200)):
        ctx.count(states=1, transitions=3, traces_validated_against_impl=1)
        ctx.fam("resized_after_width_read", cases=1)
        if bad:
            ctx.violation(dict(parent=it[0], index="int" if isinstance(it[4], int) else "slice", cls="resized", what="index after a part was re-sized"), dict(resized=[it[0], it[1], it[2], it[3], it[4] if isinstance(it[4], int) else list(it[4])]), bad)
    for k in (0, len(items) // 3, len(items) - 1):
        ctx.sample(dict(W=items[k][0], parent=items[k][1], index=items[k][4]))
    ctx.assume("oracle = Python list indexing; non-unit steps and bounds beyond [-W,W] are judged raise-or-correct as the statement allows")


def replay(body):
    c = body["case"]
    if "resized" in c:
        z = c["resized"]
        r = _resized((z[0], z[1], z[2], z[3], z[4] if isinstance(z[4], int) else tuple(z[4])))
        print("replay:", r or "holds")
        return 1 if r else 0
    if "pair" in c:
        r = _pair((c["pair"][0], tuple(c["pair"][1]), tuple(c["pair"][2])))
        print("replay:", r or "holds")
        return 1 if r else 0
    idx_ = c["index"] if isinstance(c["index"], int) else tuple(c["index"])
    pclass = "nonunit" if c["parent"].startswith("slice_of_") else "unit"
    v, outcome, cls = _one((c["W"], c["parent"], tuplify(c["parent_expr"]), pclass, idx_))
    print("replay:", cls, outcome, v[2] if v else "holds")
    return 1 if v else 0


def tuplify(x):
    if isinstance(x, list):
        return tuple(tuplify(y) for y in x) if x and isinstance(x[0], str) else [tuplify(y) for y in x]
    return x
