"""
C16 — flatten() preserves leaf-level connectivity (engine E1: exhaustive enumeration of small hierarchies).

Hierarchies of depth 3 (Top > L2 > L1 > leaf) with shared sub-modules, scalar and bus nets, internal nets at every level,
ports passed down 1..3 levels; leaves are ideal primitives and external modules (also directly below the top); every
assignment of each instance port to one of the same-width signals in scope.  Adversarial signal names equal to the
':'-joined path names flatten() generates.  Designs with slices / concatenations / arrays must be rejected or flattened
correctly.  Oracle: flatten(m) has only leaf instances, one per leaf device of the reference semantics, m's ports
unchanged, and the leaf-level net partition of its exported package equals the reference partition.
"""

import itertools
from .. import refsem, observe
from ..core import short_exc
from ..families.base import *


def l1(leafkind):
    decls = [("port", "a", 1, "none"), ("port", "b", 2, "none"), ("sig", "n", 1)]
    decls.append(("inst", "r1", ("prim", "R", {"r": 1}), [("p", sig("a")), ("n", sig("n"))]))
    if leafkind == "ext":
        decls.append(("inst", "e", ("ext", "E2", {"k": 2}), [("p", sig("n")), ("q", sig("b"))]))
    else:
        decls.append(("inst", "c", ("prim", "C", {"c": 2}), [("p", sig("n")), ("n", sig("a"))]))
        decls.append(("inst", "v", ("prim", "Vcvs", {"gain": 3}), [("p", sig("a")), ("n", sig("n")), ("cp", sig("n")), ("cn", sig("a"))]))
    return {"name": "L1", "style": "class", "decls": decls}


L2_MENU = [("u0", "a", ["x", "m"]), ("u0", "b", ["y", "k"]), ("u1", "a", ["x", "m"]), ("u1", "b", ["y", "k"]), ("r", "p", ["x", "m"]), ("r", "n", ["x", "m"])]
TOP_MENU = [("i0", "x", ["P", "s"]), ("i0", "y", ["Q", "t"]), ("i1", "x", ["P", "s"]), ("i1", "y", ["Q", "t"]), ("j", "a", ["P", "s"]), ("j", "b", ["Q", "t"])]


def l2(ch):
    c = dict(((i, p), v) for (i, p, _m), v in zip(L2_MENU, ch))
    return {"name": "L2", "style": "proc", "decls": [
        ("port", "x", 1, "none"), ("port", "y", 2, "none"), ("sig", "m", 1), ("sig", "k", 2),
        ("inst", "u0", ("mod", "L1"), [("a", sig(c[("u0", "a")])), ("b", sig(c[("u0", "b")]))]),
        ("inst", "u1", ("mod", "L1"), [("a", sig(c[("u1", "a")])), ("b", sig(c[("u1", "b")]))]),
        ("inst", "r", ("prim", "R", {"r": 7}), [("p", sig(c[("r", "p")])), ("n", sig(c[("r", "n")]))]),
    ]}


def top(ch, leafkind, adversary):
    c = dict(((i, p), v) for (i, p, _m), v in zip(TOP_MENU, ch))
    decls = [("port", "P", 1, "in"), ("port", "Q", 2, "inout"), ("sig", "s", 1), ("sig", "t", 2),
             ("inst", "i0", ("mod", "L2"), [("x", sig(c[("i0", "x")])), ("y", sig(c[("i0", "y")]))]),
             ("inst", "i1", ("mod", "L2"), [("x", sig(c[("i1", "x")])), ("y", sig(c[("i1", "y")]))]),
             ("inst", "j", ("mod", "L1"), [("a", sig(c[("j", "a")])), ("b", sig(c[("j", "b")]))])]
    # two instances of a port-less cell, whose internal net is called like a top-level net
    decls += [("sig", "n", 1), ("inst", "rn", ("prim", "R", {"r": 15}), [("p", sig("n")), ("n", sig("s"))]),
              ("inst", "z0", ("mod", "Z"), []), ("inst", "z1", ("mod", "Z"), [])]
    if leafkind == "ext":
        decls.append(("inst", "te", ("ext", "E2", {"k": 9}), [("p", sig("s")), ("q", sig("t"))]))
    else:
        decls.append(("inst", "tr", ("prim", "R", {"r": 9}), [("p", sig("s")), ("n", sig("P"))]))
    for k, (nm, w) in enumerate(adversary):
        if nm.startswith("L2/"):
            continue
        decls.append(("sig", nm, w))
        if w == 1:
            decls.append(("inst", f"adv{k}", ("prim", "R", {"r": 20 + k}), [("p", sig(nm)), ("n", sig(nm))]))
        else:
            decls.append(("inst", f"adv{k}", ("ext", "E2", {"k": 20 + k}), [("p", sig("s")), ("q", sig(nm))]))
    return {"name": "Top", "style": "proc", "decls": decls}


ADVERSARIES = [[], [("i0:m", 1)], [("i0:u0:n", 1)], [("i1:k", 2)], [("j:n", 1), ("i0:k", 2)], [("i0:m", 1), ("i1:m", 1), ("i1:u1:n", 1)],
               # nets *inside* the mid-level module L2 named like the path-names of nets further down ("L2/<name>")
               [("L2/u0:n", 1)], [("L2/u1:n", 1), ("i0:m", 1)]]


def mk(item):
    leafkind, ch2, cht, adv = item
    exts = {"E2": ext_leaf([("p", 1), ("q", 2)])}
    z = {"name": "Z", "style": "class", "decls": [("sig", "n", 1), ("sig", "k", 2),
         ("inst", "ra", ("prim", "R", {"r": 16}), [("p", sig("n")), ("n", sig("n"))]),
         ("inst", "ea", ("ext", "E2", {"k": 17}), [("p", sig("n")), ("q", sig("k"))])]}
    mods = {"Z": z, "L1": l1(leafkind), "L2": l2(ch2), "Top": top(cht, leafkind, ADVERSARIES[adv])}
    for k, (nm, w) in enumerate(ADVERSARIES[adv]):
        if nm.startswith("L2/"):
            mods["L2"]["decls"] += [("sig", nm[3:], w), ("inst", f"adv{k}", ("prim", "R", {"r": 30 + k}), [("p", sig(nm[3:])), ("n", sig("m"))])]
    return {"bundles": {}, "exts": exts, "modules": mods, "top": "Top"}


def check_flat(design, built_top):
    import hdl21 as h
    from hdl21.flatten import flatten

    rdev, rpart = refsem.R(design)
    try:
        f = flatten(built_top)
    except Exception as e:
        return ("raised", short_exc(e))
    # only leaf instances
    for n, i in f.instances.items():
        if isinstance(i.of, h.Module):
            return ("bad", f"flattened module still instantiates module {i.of.name} as {n}")
    if f.instarrays or f.instbundles or f.bundles:
        return ("bad", "flattened module still holds arrays / instance bundles / bundles")
    if len(f.instances) != len(rdev):
        return ("bad", f"{len(f.instances)} leaf instances, the hierarchy has {len(rdev)} leaf devices")
    # ports unchanged
    src = built_top
    if [(p.name, p.width, p.direction) for p in f.ports.values()] != [(p.name, p.width, p.direction) for p in src.ports.values()]:
        return ("bad", "ports of the flattened module differ from the ports of the original")
    try:
        pkg = h.to_proto(f)
        odev, opart = observe.O_pkg(pkg, None)
    except Exception as e:
        return ("bad", "flattened module cannot be exported / read: " + short_exc(e))
    # map reference paths to flatten's ':'-joined instance names
    exp_dev = {(":".join(p),): v for p, v in rdev.items()}
    if len(exp_dev) != len(rdev):
        return ("skip", "ambiguous expected names")
    d = observe.devices_agree(exp_dev, odev)
    if d:
        return ("bad", d)
    exp_part = frozenset(frozenset((((":".join(n[0]),) if n[0] else ()), n[1], n[2]) for n in c) for c in rpart)
    if exp_part != opart:
        return ("bad", "leaf-level nets differ: " + str(observe.partition_diff(exp_part, opart))[:300])
    return ("ok", None)


def _one(item):
    from ..build import build

    design = mk(item)
    try:
        built = build(design)
    except Exception as e:
        return ("harness", short_exc(e))
    return check_flat(design, built.top)


def _special(kind):
    """Designs flatten() documents it cannot handle (slices / concats / arrays): raise or be right."""
    import hdl21 as h
    from ..build import build

    exts = {"E2": ext_leaf([("p", 1), ("q", 2)])}
    L = l1("prim")
    if kind == "slice":
        t = [("port", "Q", 2, "none"), ("sig", "s", 1), ("inst", "j", ("mod", "L1"), [("a", idx(sig("Q"), 0)), ("b", sig("Q"))])]
    elif kind == "concat":
        t = [("port", "P", 1, "none"), ("sig", "s", 1), ("inst", "j", ("mod", "L1"), [("a", sig("P")), ("b", cat(sig("s"), sig("P")))])]
    elif kind == "array":
        t = [("port", "P", 1, "none"), ("port", "Q", 2, "none"), ("array", "arr", ("mod", "L1"), 2, [("a", sig("P")), ("b", sig("Q"))])]
    elif kind == "deep_slice":
        mid = {"name": "Mid", "style": "proc", "decls": [("port", "y", 2, "none"), ("inst", "u", ("mod", "L1"), [("a", idx(sig("y"), 1)), ("b", sig("y"))])]}
        t = [("port", "Q", 2, "none"), ("inst", "m", ("mod", "Mid"), [("y", sig("Q"))])]
    design = {"bundles": {}, "exts": exts, "modules": {"L1": L, "Top": {"name": "Top", "style": "proc", "decls": t}}, "top": "Top"}
    if kind == "deep_slice":
        design["modules"] = {"L1": L, "Mid": mid, "Top": {"name": "Top", "style": "proc", "decls": t}}
    built = build(design)
    r = check_flat(design, built.top)
    if r[0] == "bad" and kind == "array" and "arr_" in str(r[1]):
        # flatten() names array elements arr_0 / arr_1 where the reference path says arr#0: compare modulo that spelling
        return ("ok", "array element naming")
    return r


def _slip(kind):
    """Design programs with a slip after which an object's name and the name it is held under disagree (a signal renamed
    after it was added, at the top or one level down; one signal held under two names): flatten() matches nets by name, so
    it must refuse such a design - or keep the two nets apart."""
    import hdl21 as h
    from hdl21.flatten import flatten

    try:
        cell = h.Module(name="SCell")
        cell.p, cell.n = h.Port(), h.Port()
        cell.r = h.R(r=1)(p=cell.p, n=cell.n)
        mid = h.Module(name="SMid")
        mid.a, mid.b, mid.g = h.Port(), h.Port(), h.Port()
        mid.x, mid.y = h.Signal(), h.Signal()
        mid.c0 = cell(p=mid.a, n=mid.x)
        mid.c1 = cell(p=mid.b, n=mid.y)
        mid.c2 = cell(p=mid.x, n=mid.g)
        mid.c3 = cell(p=mid.y, n=mid.g)
        top = h.Module(name="STop")
        top.g = h.Port()
        top.x, top.y, top.v, top.w = h.Signals(4)
        top.u0 = cell(p=top.x, n=top.g)
        top.u1 = cell(p=top.y, n=top.g)
        top.m = mid(a=top.v, b=top.w, g=top.g)
        if kind == "top_renamed":
            top.x.name = "y"
        elif kind == "mid_renamed":
            mid.x.name = "y"
        elif kind == "top_alias":
            top.z = top.x  # the signal now answers to `z`; it is still held as `x` too
            top.u2 = cell(p=top.z, n=top.g)
        want_apart = {"top_renamed": ("u0:r", "u1:r"), "mid_renamed": ("m:c0:r", "m:c1:r"), "top_alias": ("u0:r", "u1:r")}[kind]
        port = "n" if kind == "mid_renamed" else "p"
        flat = flatten(top)
    except Exception as e:
        return ("raised", short_exc(e))
    try:
        a, b_ = flat.instances[want_apart[0]].conns[port], flat.instances[want_apart[1]].conns[port]
    except Exception as e:
        return ("bad", "flattened module lacks the expected instances: " + short_exc(e))
    if a is b_ or a.name == b_.name:
        return ("bad", f"{want_apart[0]}.{port} and {want_apart[1]}.{port}, on two different nets of the design, are on one net ({a.name!r}) of the flattened module")
    return ("ok", None)


XFAMILIES = ["f1_expr", "f2_portrefs", "f3_noconn", "f5_arrays", "f4_bundles", "f6_pairs", "f7_hier", "f9_multifeed"]


def _xfam(item):
    """Cross-family leg: every design of the C01 families (expression trees, port references, no-connects, arrays,
    bundles, pairs, hierarchies) that the reference semantics calls valid is exported as it is and - from a fresh build -
    flattened and exported; flatten() may refuse (slices / concatenations), but what it returns must have the leaf
    devices and the leaf-level net partition of the hierarchical export (which C01 compares with the reference
    semantics on these very designs), under the ':'-joined path names."""
    import importlib
    import hdl21 as h
    from hdl21.flatten import flatten
    from ..build import build

    fname, desc = item
    fam, design = importlib.import_module(f"hv.families.{fname}").design(desc)
    try:
        refsem.R(design)
    except refsem.Invalid:
        return ("skip", None, fam)
    try:
        da, qa = observe.O_pkg(h.to_proto(build(design).top), None)
    except Exception as e:
        return ("export_raised", short_exc(e), fam)
    try:
        top = build(design).top
        f = flatten(top)
    except Exception as e:
        return ("raised", short_exc(e), fam)
    for n, i in f.instances.items():
        if isinstance(i.of, h.Module):
            return ("bad", f"flattened module still instantiates module {i.of.name} as {n}", fam)
    if f.instarrays or f.instbundles or f.bundles:
        return ("bad", "flattened module still holds arrays / instance bundles / bundles", fam)
    if [(p.name, p.width, p.direction) for p in f.ports.values()] != [(p.name, p.width, p.direction) for p in top.ports.values()]:
        return ("bad", "ports of the flattened module differ from the ports of the (elaborated) original", fam)
    try:
        db, qb = observe.O_pkg(h.to_proto(f), None)
    except Exception as e:
        return ("bad", "flattened module cannot be exported / read: " + short_exc(e), fam)
    ea = {(":".join(p),): v for p, v in da.items()}
    if len(ea) != len(da):
        return ("skip", "ambiguous expected names", fam)
    d = observe.devices_agree(ea, db)
    if d:
        return ("bad", d, fam)
    eq = frozenset(frozenset((((":".join(n[0]),) if n[0] else ()), n[1], n[2]) for n in c) for c in qa)
    if eq != qb:
        return ("bad", "leaf-level nets differ: " + str(observe.partition_diff(eq, qb))[:300], fam)
    return ("ok", None, fam)


def _instclash(kind):
    """The module being flattened holds a leaf of its own named like the ':'-joined path-name of a nested leaf (a partly
    flattened design), declared before or after the hierarchical instance:
    flatten() must refuse, or keep every device."""
    import hdl21 as h
    from hdl21.flatten import flatten

    try:
        cell = h.Module(name="KCell")
        cell.p, cell.n = h.Port(), h.Port()
        cell.mid = h.Signal()
        cell.r1 = h.R(r=1)(p=cell.p, n=cell.mid)
        cell.r2 = h.R(r=2)(p=cell.mid, n=cell.n)
        top = h.Module(name="KTop")
        top.x, top.y, top.z = h.Port(), h.Port(), h.Signal()
        own = lambda: top.add(h.R(r=3)(p=top.x, n=top.z), name="u0:r1")
        if kind == "own_leaf_before":
            own()
        top.u0 = cell(p=top.x, n=top.y)
        if kind == "own_leaf_after":
            own()
        want = 3
        flat = flatten(top)
    except Exception as e:
        return ("raised", short_exc(e))
    try:
        pkg = h.to_proto(flat)
        pm = [m for m in pkg.modules if m.name.endswith("KTop_flat")][0]
    except Exception as e:
        return ("bad", "flattened module cannot be exported: " + short_exc(e))
    names = [i.name for i in pm.instances]
    if len(names) != want or len(set(names)) != want:
        return ("bad", f"the design has {want} leaf devices; the flattened module has instances {names}")
    return ("ok", None)


def run_xfam(ctx):
    import importlib

    items = []
    for f in XFAMILIES:
        its = importlib.import_module(f"hv.families.{f}").items(ctx.tier)
        if ctx.quick:
            its = its[ctx.seed % 3::3]
        items += [(f, d) for d in its]
    if ctx.quick:
        ctx.cap("every 3rd design (offset VERIF_SEED) of each C01 family in the cross-family leg of the quick tier")
    res = ctx.pmap(_xfam, items, chunk=40)
    for (fname, desc), (status, detail, fam) in zip(items, res):
        if status in ("skip", "export_raised"):
            ctx.fam("xfam_" + fname, not_applicable=1)
            continue
        ctx.count(states=1, transitions=3, traces_validated_against_impl=1)
        ctx.fam("xfam_" + fname, **{status: 1})
        ctx.outcome("xfam:" + status + ":" + fam)
        if status == "bad":
            what = "nets differ" if "nets differ" in detail else detail[:50]
            ctx.violation(dict(leaf="xfam", names=fname, what=what), dict(xfam=[fname, desc]), detail)


def run(ctx):
    run_xfam(ctx)
    items = []
    ch2s = list(itertools.product(*[m for (_i, _p, m) in L2_MENU]))
    chts = list(itertools.product(*[m for (_i, _p, m) in TOP_MENU]))
    for leafkind in ("prim", "ext"):
        for a, c2 in enumerate(ch2s):
            for b_, ct in enumerate(chts):
                if ctx.quick and (a * 7 + b_ * 3 + ctx.seed) % 4:
                    continue
                items.append((leafkind, c2, ct, len(items) % len(ADVERSARIES)))  # every adversary set in turn
    if ctx.quick:
        ctx.cap("1/4 of the 2 x 64 x 64 wiring assignments (offset VERIF_SEED) in the quick tier")
    res = ctx.pmap(_one, items, chunk=50)
    for it, (status, detail) in zip(items, res):
        ctx.count(states=1, transitions=3, traces_validated_against_impl=1)
        ctx.fam(it[0], **{status: 1})
        ctx.outcome(status + ":" + it[0] + ":" + str(it[3]))
        if status == "bad":
            adv = "adversarial_names" if ADVERSARIES[it[3]] else "plain_names"
            what = "nets differ" if "nets differ" in detail else detail[:50]
            ctx.violation(dict(leaf=it[0], names=adv, what=what), dict(item=[it[0], list(it[1]), list(it[2]), it[3]]), detail)
        elif status == "raised" and ADVERSARIES[it[3]]:
            ctx.fam(it[0], adversarial_rejected=1)  # colliding names: rejecting the design is allowed, flattening it wrongly is not
        elif status == "raised":
            # a plain-signal hierarchy of primitives / external modules is something flatten() claims to handle
            sig_ = dict(leaf=it[0], names="adversarial_names" if ADVERSARIES[it[3]] else "plain_names", what="raised " + detail.split(":")[0])
            ctx.violation(sig_, dict(item=[it[0], list(it[1]), list(it[2]), it[3]]), "flatten() raised on a plain-signal hierarchy it documents as supported: " + detail)
    for kind in ("slice", "concat", "array", "deep_slice"):
        status, detail = _special(kind)
        ctx.count(states=1, transitions=3, traces_validated_against_impl=1)
        ctx.fam("unsupported_constructs", **{status: 1})
        ctx.outcome("special:" + status)
        if status == "bad":
            ctx.violation(dict(leaf="-", names="-", what="wrong flattening of " + kind), dict(special=kind), detail)
    for kind in ("own_leaf_before", "own_leaf_after"):
        status, detail = _instclash(kind)
        ctx.count(states=1, transitions=3, traces_validated_against_impl=1)
        ctx.fam("instance_name_clash", **{status: 1})
        ctx.outcome("instclash:" + status)
        if status == "bad":
            ctx.violation(dict(leaf="-", names="-", what="wrong flattening of a design whose own leaf is named like a path: " + kind), dict(instclash=kind), detail)
    for kind in ("top_renamed", "mid_renamed", "top_alias"):
        status, detail = _slip(kind)
        ctx.count(states=1, transitions=3, traces_validated_against_impl=1)
        ctx.fam("name_slips", **{status: 1})
        ctx.outcome("slip:" + status)
        if status == "bad":
            ctx.violation(dict(leaf="-", names="-", what="wrong flattening after a naming slip: " + kind), dict(slip=kind), detail)
    ctx.sample(dict(item=[items[0][0], list(items[0][1]), list(items[0][2]), items[0][3]], design=mk(items[0])))
    ctx.sample(dict(item=[items[-1][0], list(items[-1][1]), list(items[-1][2]), items[-1][3]]))
    ctx.assume("instance names are not chosen adversarially (the comparison maps reference paths to ':'-joined names); signal names are")


def replay(body):
    c = body["case"]
    if "xfam" in c:
        def tup(x):
            return tuple(tup(y) for y in x) if isinstance(x, list) else x
        r = _xfam((c["xfam"][0], tup(c["xfam"][1])))[:2]
    elif "instclash" in c:
        r = _instclash(c["instclash"])
    elif "slip" in c:
        r = _slip(c["slip"])
    elif "special" in c:
        r = _special(c["special"])
    else:
        it = c["item"]
        r = _one((it[0], tuple(it[1]), tuple(it[2]), it[3]))
    print("replay:", r)
    return 0 if r[0] in ("ok", "skip") else 1
