"""
C07 — elaboration results do not depend on elaboration history (engine E3, stateless: no state merging).

For two design DAGs with shared sub-modules (bundle-valued ports, port references, no-connects, arrays, pairs): every
sequence of up to 2 (3 thorough) calls drawn from {elaborate, to_proto, netlist} x every module, and elaborate / to_proto
of every ordered pair of modules, is executed on freshly built objects; afterwards the package of *every* module is
exported and compared byte-for-byte with the package of the same module from a fresh build with no history; a new parent
instantiating an already elaborated module by its bundle-level ports must elaborate to the reference semantics; additions
to an elaborated module must be refused.  A subset is re-run in fresh sub-processes.
"""

import io, itertools, json, subprocess, sys, os
from ..core import short_exc, ROOT
from ..families import dags
from .. import refsem, observe

_FRESH = {}


def fresh_packages(dname):
    """{module: serialized package} from fresh builds with no history (one build per module)."""
    import hdl21 as h
    from ..build import build

    if dname not in _FRESH:
        out = {}
        design = dags.ALL[dname]()
        for top in design["modules"]:
            built = build(design)
            out[top] = h.to_proto(built.modules[top]).SerializeToString(deterministic=True)
        _FRESH[dname] = out
    return _FRESH[dname]


def prefill_fresh(dnames=None):
    """Fill the references from pristine processes, one per module (to be called in the parent before workers are forked):
    a reference computed in a process that has already exported other things would share whatever state leaks there."""
    import subprocess, sys, os

    jobs = [(d, top) for d in (dnames or list(dags.ALL)) if d not in _FRESH for top in dags.ALL[d]()["modules"]]
    procs = [(d, top, subprocess.Popen([sys.executable, "-W", "ignore", "-m", "hv.checks.c07_fresh", d, top], stdout=subprocess.PIPE, stderr=subprocess.PIPE, text=True, env=dict(os.environ)))
             for d, top in jobs]
    for d, top, pr in procs:
        out, err = pr.communicate(timeout=600)
        if pr.returncode != 0:
            raise RuntimeError(f"reference build of {d}/{top} failed: {err[-400:]}")
        _FRESH.setdefault(d, {})[top] = bytes.fromhex(out.strip().splitlines()[-1])
    return len(jobs)


LISTS = {"dag1": [["T", "T2"], ["T2", "C2", "T"], ["LB", "M"]], "dag2": [["P", "Q"], ["Q", "N", "P"]]}
_FRESH_LISTS = {}


def fresh_list_packages(dname):
    """{tuple of module names: serialized package of to_proto([...])} from fresh builds."""
    import hdl21 as h
    from ..build import build

    if dname not in _FRESH_LISTS:
        out = {}
        design = dags.DAGS[dname]()
        for names in LISTS[dname]:
            built = build(design)
            out[tuple(names)] = h.to_proto([built.modules[n] for n in names]).SerializeToString(deterministic=True)
        _FRESH_LISTS[dname] = out
    return _FRESH_LISTS[dname]


def calls_for(design, reduced=False):
    mods = list(design["modules"])
    calls = []
    for m in mods:
        for kind in ("elaborate", "to_proto") + (() if reduced else ("netlist",)):
            calls.append((kind, (m,)))
    pairs = list(itertools.permutations(mods, 2))
    if reduced:
        pairs = pairs[:: max(1, len(pairs) // 8)]
    for a, b in pairs:
        calls.append(("elaborate", (a, b)))
        if not reduced:
            calls.append(("to_proto", (a, b)))
    return calls


def do_call(h, built, call):
    kind, ms = call
    arg = built.modules[ms[0]] if len(ms) == 1 else [built.modules[m] for m in ms]
    if kind == "elaborate":
        h.elaborate(arg)
    elif kind == "to_proto":
        h.to_proto(arg)
    elif kind == "to_proto_sub":
        # through a customized Elaborator: the stock passes, each replaced by a user's (empty) sub-class of it
        from hdl21.elab import Elaborator, set_elaborator, reset_elaborator

        custom = Elaborator.default()
        custom.passes = [type("My" + p.__name__, (p,), {}) for p in custom.passes]
        set_elaborator(custom)
        try:
            h.to_proto(arg)
        finally:
            reset_elaborator()
    else:
        h.netlist(arg, io.StringIO(), fmt="spice")


def _one(item):
    import hdl21 as h
    from ..build import build

    dname, hist = item
    design = dags.DAGS[dname]()
    fresh = fresh_packages(dname)
    built = build(design)
    try:
        for call in hist:
            do_call(h, built, call)
    except Exception as e:
        return ("call_raised", short_exc(e))
    # fingerprint of the state the history leaves behind: which modules are fully elaborated / flattened
    state = tuple(sorted((m, built.modules[m]._elaborated is not None, built.modules[m]._pre_flattening_io is not None) for m in design["modules"]))
    # every module's package must equal the fresh one
    for top in design["modules"]:
        try:
            got = h.to_proto(built.modules[top]).SerializeToString(deterministic=True)
        except Exception as e:
            return ("export_raised", f"{top}: {short_exc(e)}")
        if got != fresh[top]:
            return ("differs", f"package of {top} differs from the package of a fresh build")
        # ... and exporting again changes nothing (checked on the modules nothing else instantiates)
        if top in ("T", "T2", "C2", "P", "Q"):
            again = h.to_proto(built.modules[top]).SerializeToString(deterministic=True)
            if again != got:
                return ("not_idempotent", f"second export of {top} differs from the first")
    # lists of modules, some of which the history has elaborated already: the package of the list is that of a fresh build
    for names, want in fresh_list_packages(dname).items():
        try:
            got = h.to_proto([built.modules[n] for n in names]).SerializeToString(deterministic=True)
        except Exception as e:
            return ("export_raised", f"list {list(names)}: {short_exc(e)}")
        if got != want:
            return ("differs", f"package of the list {list(names)} differs from the package of a fresh build")
    # an elaborated module still shows its bundle-level ports to new parents
    r = new_parent_check(h, design, built, dname)
    if r:
        return r
    # ... and refuses further additions
    for top in design["modules"]:
        try:
            built.modules[top].latecomer = h.Signal()
            return ("not_frozen", f"addition to elaborated module {top} accepted")
        except Exception:
            pass
    return ("ok_state", state)


_FRESH_RENAMED = {}


def fresh_renamed(dname, victim):
    import hdl21 as h
    from ..build import build

    if (dname, victim) not in _FRESH_RENAMED:
        out = {}
        design = dags.DAGS[dname]()
        for top in design["modules"]:
            built = build(design)
            built.modules[victim].name = victim + "Final"
            out[top] = h.to_proto(built.modules[top]).SerializeToString(deterministic=True)
        _FRESH_RENAMED[(dname, victim)] = out
    return _FRESH_RENAMED[(dname, victim)]


def _one_rename(item):
    """History, then one module is given its final name: every package equals that of a fresh build with the same name."""
    import hdl21 as h
    from ..build import build

    dname, hist, victim = item
    design = dags.DAGS[dname]()
    fresh = fresh_renamed(dname, victim)
    built = build(design)
    try:
        for call in hist:
            do_call(h, built, call)
        built.modules[victim].name = victim + "Final"
    except Exception as e:
        return ("call_raised", short_exc(e))
    for top in design["modules"]:
        try:
            got = h.to_proto(built.modules[top]).SerializeToString(deterministic=True)
        except Exception as e:
            return ("export_raised", f"{top}: {short_exc(e)}")
        if got != fresh[top]:
            return ("differs", f"after renaming {victim}, the package of {top} differs from the package of a fresh build with that name")
    return ("ok_state", ("renamed", victim))


def new_parent_check(h, design, built, dname):
    """A new parent instantiating an elaborated mid-level module through its bundle port, by bundle instance and by
    anonymous bundle."""
    from ..build import build as _b
    from ..families.base import sig, probe, probe_ext, cat, idx
    from ..families.f4_bundles import anon, b as bexpr

    mid, port, bport, bname = ("M", "p", "bq", "B1") if dname == "dag1" else ("N", "p", "b2", "B2")
    pw = 2 if dname == "dag1" else 4
    # the same parent, described for the reference semantics ...
    d2 = dags.DAGS[dname]()
    anonv = anon(x=sig("s1"), y=sig("v2")) if dname == "dag1" else anon(s=sig("s1"), sub=anon(x=sig("s1"), y=sig("v2")))
    d2["exts"].update(dict([probe_ext(1), probe_ext(2), probe_ext(4)]))
    d2["modules"]["NewP"] = {"name": "NewP", "style": "proc", "decls": [
        ("sig", "bus", pw), ("sig", "s1", 1), ("sig", "v2", 2), ("binst", "nb", bname),
        ("inst", "i0", ("mod", mid), [(port, sig("bus")), (bport, bexpr("nb"))]),
        ("inst", "i1", ("mod", mid), [(port, sig("bus")), (bport, anonv)]),
        # ... and by port references only: an implicit bundle-valued net between two instances
        ("inst", "i2", ("mod", mid), [(port, sig("bus"))]),
        ("inst", "i3", ("mod", mid), [(port, sig("bus")), (bport, ("pref", "i2", bport))]),
        probe("pb", "bus", pw, 3), probe("ps", "s1", 1, 4), probe("pv", "v2", 2, 5),
    ]}
    d2["top"] = "NewP"
    rdev, rpart = refsem.R(d2)
    # an unrelated module that merely has the *name* of the mid-level module and a bundle port of the same name (but of
    # another bundle type) is exported in between: per-module caches must be keyed by the module, not by its name
    try:
        twin = h.Module(name=mid)
        tb_ = h.Bundle(name="TwinB")
        tb_.only = h.Signal(width=3)
        setattr(twin, bport, tb_(port=True))
        twin.add(h.Signal(name="tw", width=3))
        twin.add(h.R(r=1)(p=getattr(twin, bport).only[0], n=twin.tw[1]), name="rt")
        h.to_proto(twin)
        # ... and so is an external module that has the name (and domain) of one the DAG uses, but other ports
        from ..families.base import ext_leaf
        _dom = "hv"  # the domain hv/build.py gives its external modules
    except Exception as e:
        return ("twin_raised", short_exc(e))
    try:
        ext_twin = h.ExternalModule(name="P1", domain=_dom, port_list=[h.Port(name="a"), h.Port(name="second")], paramtype=dict)
        tu = h.Module(name="TwinUser")
        tu.s1, tu.s2 = h.Signal(), h.Signal()
        tu.e = ext_twin(dict(k=1))(a=tu.s1, second=tu.s2)
        tpkg = h.to_proto(tu)
        from .. import wf as _wf

        probs = _wf.wf(tpkg)
        if probs:
            return ("twin_ext_wrong", "a later design using another external module of the same qualified name: " + probs[0])
    except Exception as e:
        return ("twin_raised", short_exc(e))
    # ... and built on the *already elaborated* objects
    from ..build import build_module, build_ext

    try:
        for en in d2["exts"]:
            build_ext(d2, en, built)
        newp = build_module(d2, "NewP", built)
        pkg = h.to_proto(newp)
        odev, opart = observe.O_pkg(pkg, d2)
    except Exception as e:
        return ("new_parent_raised", short_exc(e))
    if observe.devices_agree(rdev, odev) or opart != rpart:
        return ("new_parent_differs", "a new parent of an elaborated module is wired differently from the reference semantics")
    return None


SUBPROC = r"""
import sys, json
sys.path.insert(0, %r)
from hv.checks import c07
dname, hist = %r, %r
# the references come from the parent (each built in a pristine process of its own), not from this process
c07._FRESH[dname] = {k: bytes.fromhex(v) for k, v in json.loads(sys.stdin.read()).items()}
r = c07._one((dname, hist))
print(json.dumps(r))
"""


def run(ctx):
    total = 0
    n = prefill_fresh(list(dags.DAGS))
    ctx.fam("reference_builds_in_pristine_processes", processes=n)
    for dname in dags.DAGS:
        design = dags.DAGS[dname]()
        calls = calls_for(design)
        hists = [[c] for c in calls] + [[a, b] for a in calls for b in calls]
        subs = [("to_proto_sub", (m,)) for m in design["modules"]]
        hists += [[b] for b in subs] + [[a, b] for a in calls for b in subs] + [[b, a] for a in calls for b in subs]
        if not ctx.quick:
            rc = calls_for(design, reduced=True)
            hists += [[a, b, c] for a in rc for b in rc for c in rc]
        elif ctx.seed:
            # an extra, fully enumerated slice of length-3 histories chosen by the seed
            rc = calls_for(design, reduced=True)
            first = rc[ctx.seed % len(rc)]
            hists += [[first, b, c] for b in rc for c in rc]
        items = [(dname, hh) for hh in hists]
        res = ctx.pmap(_one, items, chunk=40)
        for (dn, hh), r in zip(items, res):
            ctx.count(states=1, transitions=len(hh) + 2 * len(design["modules"]) + 1, traces_validated_against_impl=1)
            if r is not None and r[0] == "ok_state":
                ctx.outcome(("state", dn, r[1]))
                r = None
            else:
                ctx.outcome("ok" if r is None else r[0])
            if r:
                ctx.violation(dict(dag=dn, kind=r[0], first_call=hh[0][0], what=r[1][:60]), dict(dag=dn, history=[[k, list(ms)] for k, ms in hh]), r[1])
        ctx.fam(dname, histories=len(items), call_alphabet=len(calls))
        # a module renamed after the history
        ritems = [(dname, [c], v) for c in calls for v in design["modules"]]
        res = ctx.pmap(_one_rename, ritems, chunk=40)
        for (dn, hh, v), r in zip(ritems, res):
            ctx.count(states=1, transitions=len(hh) + 1 + len(design["modules"]), traces_validated_against_impl=1)
            if r[0] == "ok_state":
                ctx.outcome(("state", dn, r[1]))
            else:
                ctx.outcome(r[0])
                ctx.violation(dict(dag=dn, kind="rename:" + r[0], first_call=hh[0][0], what=r[1][:60]), dict(dag=dn, history=[[k, list(ms)] for k, ms in hh], rename=v), r[1])
        ctx.fam(dname + "/renamed_after", histories=len(ritems))
        total += len(items)
        ctx.sample(dict(dag=dname, history=[[k, list(ms)] for k, ms in hists[len(hists) // 2]]))
    # pristine processes: a history that is the very first thing its process does, judged against references that were each
    # built in a pristine process of their own - whatever leaks from one export to the next inside a process shows here
    sub = 0
    jobs = []
    for dname in dags.DAGS:
        design = dags.DAGS[dname]()
        calls = calls_for(design)
        protos = [c for c in calls if c[0] == "to_proto" and len(c[1]) == 1]
        hs = [[c] for c in protos] + [[calls[0]], [calls[3], calls[-1]], [calls[-2], calls[1]]]
        if not ctx.quick:
            hs += [[a, b_] for a in protos for b_ in protos if a != b_]
        ref = json.dumps({k: v.hex() for k, v in _FRESH[dname].items()})
        for hh in hs:
            jobs.append((dname, hh, ref))
    for k0 in range(0, len(jobs), 24):
        batch = jobs[k0:k0 + 24]
        procs = [subprocess.Popen([sys.executable, "-W", "ignore", "-c", SUBPROC % (str(ROOT), dname, [[k, list(ms)] for k, ms in hh])], stdin=subprocess.PIPE, stdout=subprocess.PIPE,
                                  stderr=subprocess.PIPE, text=True, env=dict(os.environ, PYTHONHASHSEED="0")) for dname, hh, ref in batch]
        for (dname, hh, ref), pr in zip(batch, procs):
            out, err = pr.communicate(ref, timeout=600)
            sub += 1
            last = out.strip().splitlines()[-1] if out.strip() else "ERR"
            if last != "null" and not last.startswith('["ok_state"'):
                ctx.violation(dict(dag=dname, kind="pristine_process", first_call=hh[0][0], what=last[:60]), dict(dag=dname, history=[[k, list(ms)] for k, ms in hh], pristine=True), last + err[-300:])
    ctx.count(states=sub, transitions=sub, traces_validated_against_impl=sub)
    ctx.fam("fresh_subprocesses", runs=sub)
    ctx.assume("byte equality of deterministic protobuf serialisations", "no state merging: 'same set of elaborated modules' does not imply the same cache contents")


def replay(body):
    c = body["case"]
    if "rename" in c:
        r = _one_rename((c["dag"], [(k, tuple(ms)) for k, ms in c["history"]], c["rename"]))
    else:
        r = _one((c["dag"], [(k, tuple(ms)) for k, ms in c["history"]]))
    if r is not None and r[0] == "ok_state":
        r = None
    print("replay:", r or "holds")
    return 1 if r else 0
