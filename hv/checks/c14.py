"""
C14 — Prefixed numbers are exact, totally ordered and hash-consistent (engine E2: exhaustive value box).

All 441 ordered prefix pairs x all ordered mantissa pairs of a fixed mantissa set; oracle = fractions.Fraction.
"""

import itertools, math
from fractions import Fraction
from decimal import Decimal
from ..core import short_exc

PREFIX_EXPS = [-24, -21, -18, -15, -12, -9, -6, -3, -2, -1, 0, 1, 2, 3, 6, 9, 12, 15, 18, 21, 24]

M_QUICK = ["0", "1", "-1", "1.5", "-2.5", "999.9995", "1000", "0.001", "1234567", "-0.000123", "1234567890123456789012345",
           # pairs closer than the comparison tolerance, and tiny values of either sign: the six operators must stay consistent
           "1.00000000000000000000001", "-0.000000000000000000001", "0.000000000000000000004"]
M_MORE = ["1000.0000000000000000001", "999.99999999999999999999", "-1000", "0.5", "3", "7E+2", "1E-7", "-9999999999999999999999999", "0.1000000000000000000000001", "123456.789"]

TOL = Fraction(1, 10**20)


def val(num: str, exp: int) -> Fraction:
    return Fraction(num) * Fraction(10) ** exp


def fval(p) -> Fraction:
    """Exact value of a hdl21 Prefixed."""
    return Fraction(p.number) * Fraction(10) ** p.prefix.value


def _chunk(item):
    """One prefix pair x all mantissa pairs.  Returns (n_evals, outcomes, violations)."""
    import hdl21 as h
    from hdl21.prefix import Prefix, Prefixed

    ea, eb, mants = item[:3]
    # "lowprec": the same evaluations with the caller's ambient decimal context set to six digits - results are exact all the same
    import decimal
    from hdl21.prefix import e as hexp

    saved_prec = decimal.getcontext().prec
    if len(item) > 3 and item[3] == "lowprec":
        decimal.getcontext().prec = 6
    try:
        return _chunk_body(ea, eb, mants, Prefix, Prefixed, hexp)
    finally:
        decimal.getcontext().prec = saved_prec


def _chunk_body(ea, eb, mants, Prefix, Prefixed, hexp):
    pa, pb = Prefix.from_exp(ea), Prefix.from_exp(eb)
    viol = []
    outcomes = set()
    n = 0

    def bad(op, a, b, what, got=None, want=None):
        viol.append(dict(op=op, a=a, b=b, what=what, got=repr(got)[:120], want=repr(want)[:120]))

    for ma in mants:
        A = Prefixed(number=Decimal(ma), prefix=pa)
        va = val(ma, ea)
        sa = (ma, ea)
        # ---- unary (only once per a: when b is the first prefix / mantissa) ----
        if eb == PREFIX_EXPS[0]:
            for op, fn, want in (("neg", lambda: -A, -va), ("abs", lambda: abs(A), abs(va))):
                n += 1
                try:
                    r = fn()
                    if fval(r) != want:
                        bad(op, sa, None, "inexact", fval(r), want)
                except Exception as e:
                    bad(op, sa, None, "raised", short_exc(e))
            # a plain number on either side of the operator
            for k in (5, Decimal("2.5"), -3):
                fk = Fraction(k)
                for op, fn, want in (("num+x", lambda: k + A, fk + va), ("x+num", lambda: A + k, va + fk), ("num-x", lambda: k - A, fk - va),
                                     ("x-num", lambda: A - k, va - fk), ("num*x", lambda: k * A, fk * va), ("x*num", lambda: A * k, va * fk)):
                    n += 1
                    try:
                        r = fn()
                        if not isinstance(r, Prefixed) or fval(r) != want:
                            bad(op, sa, None, "inexact", str(fval(r)) if isinstance(r, Prefixed) else r, str(want))
                        outcomes.add(op + ":ok")
                    except Exception as e:
                        bad(op, sa, None, "raised", short_exc(e))
            # comparisons with a bare float: as everywhere in the library, a float denotes the decimal number it prints as
            if ma == mants[0]:
                import operator

                for f in (0.1, 0.3, 0.0003, 1.1, 2.675, 123.456, 7e-9, 0.5, -0.1, 3.0):
                    X = Prefixed(number=Decimal(repr(f)).scaleb(-ea), prefix=pa)  # the same value, written with prefix pa
                    for g, rel in ((f, 0), (f * 2, -1 if f > 0 else 1), (f / 2, 1 if f > 0 else -1)):
                        for opn, want in (("eq", rel == 0), ("ne", rel != 0), ("lt", rel < 0), ("le", rel <= 0), ("gt", rel > 0), ("ge", rel >= 0)):
                            for side in ("x?f", "f?x"):
                                n += 1
                                try:
                                    r = getattr(operator, opn)(X, g) if side == "x?f" else getattr(operator, {"lt": "gt", "gt": "lt", "le": "ge", "ge": "le"}.get(opn, opn))(g, X)
                                    if r is not want:
                                        bad("float_" + opn, (repr(f), ea), repr(g), "comparison with a bare float (" + side + ")", r, want)
                                    outcomes.add("float_cmp:ok")
                                except Exception as e:
                                    bad("float_" + opn, (repr(f), ea), repr(g), "raised", short_exc(e))
            # the documented exponent spelling `number * e(k)`, digit for digit
            n += 1
            try:
                r = Decimal(ma) * hexp(ea)
                if fval(r) != va:
                    bad("num*e(k)", sa, None, "inexact", str(fval(r)), str(va))
            except Exception as e:
                bad("num*e(k)", sa, None, "raised", short_exc(e))
            # ... and with exponents that are not prefixes themselves (e(4) = 10 * KILO), on a plain and on a prefixed number
            for k in (4, 5, 7, -4, -7, 10, -10, 25, -26):
                for op, fn, want in (("num*e(k)", lambda: Decimal(ma) * hexp(k), Fraction(ma) * Fraction(10) ** k), ("x*e(k)", lambda: A * hexp(k), va * Fraction(10) ** k)):
                    if op == "x*e(k)" and not -27 <= ea + k <= 27:
                        continue
                    n += 1
                    try:
                        r = fn()
                        if not isinstance(r, Prefixed) or fval(r) != want:
                            bad(op, sa, k, "inexact", str(fval(r)) if isinstance(r, Prefixed) else r, str(want))
                    except Exception as e:
                        bad(op, sa, k, "raised", short_exc(e))
            for et in PREFIX_EXPS:
                # a prefixed number times a prefix, e.g. `(5 * n) * G`
                if -24 <= ea + et <= 24:
                    n += 1
                    try:
                        r = A * Prefix.from_exp(et)
                        if not isinstance(r, Prefixed) or fval(r) != va * Fraction(10) ** et:
                            bad("x*prefix", sa, et, "inexact", str(fval(r)) if isinstance(r, Prefixed) else r, str(va * Fraction(10) ** et))
                    except Exception as e:
                        bad("x*prefix", sa, et, "raised", short_exc(e))
                n += 1
                try:
                    r = A.scale(Prefix.from_exp(et))
                    if fval(r) != va or r.prefix.value != et:
                        bad("scale", sa, et, "inexact or wrong prefix", (str(r.number), r.prefix.value), str(va))
                except Exception as e:
                    bad("scale", sa, et, "raised", short_exc(e))
            n += 1
            try:
                r = A.scale()
                if fval(r) != va:
                    bad("autoscale", sa, None, "inexact", fval(r), va)
            except Exception as e:
                bad("autoscale", sa, None, "raised", short_exc(e))
            n += 1
            try:
                r = int(A)
                want = int(va)  # truncation toward zero of the exact value
                if not isinstance(r, int) or r != want:
                    bad("int", sa, None, "wrong integer part", r, want)
            except Exception as e:
                bad("int", sa, None, "raised", short_exc(e))
            n += 1
            try:
                r = float(A)
                want = va.numerator / va.denominator  # correctly rounded (int/int true division)
                if r != want:
                    bad("float", sa, None, "not the nearest float", r, want)
            except Exception as e:
                bad("float", sa, None, "raised", short_exc(e))
        for mb in mants:
            B = Prefixed(number=Decimal(mb), prefix=pb)
            vb = val(mb, eb)
            sb = (mb, eb)
            # ---- arithmetic ----
            for op, fn, want in (("add", lambda: A + B, va + vb), ("sub", lambda: A - B, va - vb), ("mul", lambda: A * B, va * vb)):
                n += 1
                try:
                    r = fn()
                    if not isinstance(r, Prefixed) or fval(r) != want:
                        bad(op, sa, sb, "inexact", str(fval(r)) if isinstance(r, Prefixed) else r, str(want))
                    outcomes.add(op + ":ok")
                except Exception as e:
                    bad(op, sa, sb, "raised", short_exc(e))
            # ---- comparisons ----
            res = {}
            raised = False
            for op, fn in (("lt", lambda: A < B), ("le", lambda: A <= B), ("eq", lambda: A == B), ("ne", lambda: A != B), ("gt", lambda: A > B), ("ge", lambda: A >= B)):
                n += 1
                try:
                    res[op] = bool(fn())
                except Exception as e:
                    bad("cmp_" + op, sa, sb, "raised", short_exc(e))
                    raised = True
            if not raised:
                lt, le, eq, ne, gt, ge = (res[k] for k in ("lt", "le", "eq", "ne", "gt", "ge"))
                if (lt + eq + gt) != 1:
                    bad("cmp", sa, sb, "trichotomy", res)
                elif le != (lt or eq) or ge != (gt or eq) or ne != (not eq):
                    bad("cmp", sa, sb, "operator identities", res)
                else:
                    # most lenient of the plausible readings of "20 decimal places in their SI unit" (readme): 1e-20 in
                    # the base unit, or in the unit of either operand's prefix - whichever is largest
                    tol = TOL * Fraction(10) ** max(0, ea, eb)
                    d = va - vb
                    if abs(d) > tol and (lt != (d < 0) or gt != (d > 0)):
                        bad("cmp", sa, sb, "order disagrees with exact values", res, "lt" if d < 0 else "gt")
                    if d == 0 and not eq:
                        bad("cmp", sa, sb, "equal values compare unequal", res)
                outcomes.add("cmp:" + ("lt" if lt else "eq" if eq else "gt"))
            # ---- hash ----
            n += 1
            try:
                if va == vb and hash(A) != hash(B):
                    bad("hash", sa, sb, "equal values hash differently", (hash(A), hash(B)))
            except Exception as e:
                bad("hash", sa, sb, "raised", short_exc(e))
            # ---- hash of an object whose fields are assigned after it was hashed, and of a modified copy of a hashed object ----
            n += 1
            try:
                C = Prefixed(number=Decimal(ma), prefix=pa)
                hash(C)
                D = C.model_copy() if hasattr(C, "model_copy") else C.copy()
                C.number, C.prefix = Decimal(mb), pb
                D.prefix, D.number = pb, Decimal(mb)
                for how, X in (("assigned", C), ("copied then assigned", D)):
                    if not (X == B) or hash(X) != hash(B):
                        bad("hash_mut", sa, sb, f"an object {how} the value of b is not equal to b, or hashes differently", (X == B, hash(X), hash(B)))
                outcomes.add("hash_mut:ok")
            except Exception as e:
                bad("hash_mut", sa, sb, "raised", short_exc(e))
    return n, outcomes, viol


def run(ctx):
    mants = M_QUICK if ctx.quick else M_QUICK + M_MORE
    if ctx.seed and ctx.quick:
        # additional, completely enumerated sub-box chosen by the seed
        extra = M_MORE[ctx.seed % len(M_MORE)]
        mants = mants + [extra]
    items = [(ea, eb, mants) for ea in PREFIX_EXPS for eb in PREFIX_EXPS]
    # ... and once more inside a six-digit ambient decimal context (a sub-box of mantissas; every prefix pair)
    low = [m for m in mants if m in ("0", "-2.5", "999.9995", "1234567", "1234567890123456789012345", "1.00000000000000000000001")]
    items += [(ea, eb, low, "lowprec") for ea in PREFIX_EXPS for eb in PREFIX_EXPS]
    ctx.extra["mantissas"] = mants
    ctx.extra["box"] = "21x21 ordered prefix pairs x ordered mantissa pairs; ops + - * neg abs scale(21) autoscale int float, six comparisons, hash"
    results = ctx.pmap(_chunk, items, chunk=4)
    for it, (n, outcomes, viol) in zip(items, results):
        ctx.count(states=len(it[2]) ** 2, transitions=n, traces_validated_against_impl=n)
        for o in outcomes:
            ctx.outcome(o)
        for v in viol:
            v["context"] = "six-digit ambient decimal context" if len(it) > 3 else "default"
            sig = dict(op=v["op"], context=v["context"], what=v["what"] if v["what"] != "raised" else "raised " + v["got"].split(":")[0].strip("'\""))
            ctx.violation(sig, v)
    ctx.sample(dict(a=(mants[3], PREFIX_EXPS[3]), b=(mants[5], PREFIX_EXPS[12]), ops="all"))
    ctx.sample(dict(a=(mants[-1], 24), b=(mants[1], -24), ops="all"))
    ctx.assume("oracle = fractions.Fraction; comparison tolerance read most leniently (1e-20 in the unit of the larger prefix)")


def replay(body):
    c = body["case"]
    a, b = c["a"], c["b"]
    items = (a[1], b[1] if b and isinstance(b, list) else PREFIX_EXPS[0], sorted({a[0]} | ({b[0]} if b and isinstance(b, list) else set())))
    if c.get("context", "default") != "default":
        items = items + ("lowprec",)
    n, o, v = _chunk(items)
    v = [x for x in v if x["op"] == c["op"]]
    print("replay:", v[:3] if v else "holds")
    return 1 if v else 0
