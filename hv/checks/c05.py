"""
C05 — names invented during elaboration never capture the designer's names (engine E1 with adversarial names).

Family F8: every naming rule x adversary kind x subset of {N, N_, N__} x declaration order.  Oracle: either an
exception, or a package in which every designer signal / instance is present under its own name and width, that is
well-formed, and whose leaf-level net partition equals the reference semantics (so nothing was shorted or replaced).
"""

import importlib
from .. import refsem, observe, wf as wfmod
from ..core import short_exc
from ..families import f8_names


def designer_objects_present(design, pkg):
    top = [m for m in pkg.modules if m.name.split(".")[-1] == "Top"]
    if len(top) != 1:
        return f"top module not found among {[m.name for m in pkg.modules]}"
    top = top[0]
    sigs = {s.name: s.width for s in top.signals}
    ports = {p.signal for p in top.ports}
    insts = {i.name: i for i in top.instances}
    for d in design["modules"]["Top"]["decls"]:
        if d[0] in ("sig", "port"):
            if sigs.get(d[1]) != d[2]:
                return f"designer signal {d[1]!r} (width {d[2]}) is {sigs.get(d[1])!r} in the package"
            if (d[0] == "port") != (d[1] in ports):
                return f"designer {'port' if d[0]=='port' else 'signal'} {d[1]!r} changed visibility"
        elif d[0] == "inst":
            if d[1] not in insts:
                return f"designer instance {d[1]!r} missing from the package"
            i = insts[d[1]]
            tgt = i.module.local.split(".")[-1] if i.module.WhichOneof("to") == "local" else i.module.external.name
            want = d[2][1] if d[2][0] in ("mod", "ext") else None
            if want and tgt != want:
                return f"designer instance {d[1]!r} now instantiates {tgt!r}, not {want!r}"
    return None


def _one(desc):
    import hdl21 as h
    from ..build import build

    fam, design = f8_names.design(desc)
    try:
        rdev, rpart = refsem.R(design)
    except refsem.Invalid as e:
        return fam, "skip", None, None
    try:
        pkg = h.to_proto(build(design).top)
    except Exception as e:
        return fam, "raised", short_exc(e), None
    bad = designer_objects_present(design, pkg)
    if bad:
        return fam, "captured", bad, design
    probs = wfmod.wf(pkg)
    if probs:
        return fam, "ill_formed", probs[0], design
    try:
        odev, opart = observe.O_pkg(pkg, design)
    except observe.Malformed as e:
        return fam, "malformed", str(e), design
    dd = observe.devices_agree(rdev, odev)
    if dd:
        return fam, "devices", dd, design
    if opart != rpart:
        return fam, "partition", observe.partition_diff(rpart, opart), design
    return fam, "ok", None, None


def run(ctx):
    items = f8_names.items(ctx.tier)
    res = ctx.pmap(_one, items)
    for desc, (fam, status, detail, design) in zip(items, res):
        rule, kind = fam.split("/")[1:3]
        if status == "skip":
            ctx.fam(rule, invalid_by_reference=1)
            continue
        ctx.count(states=1, transitions=3, traces_validated_against_impl=1)
        ctx.fam(rule, **{status: 1})
        ctx.outcome(status + ":" + rule + ":" + kind)
        if status in ("ok", "raised"):
            continue
        ctx.violation(dict(rule=rule, adversary=kind, kind=status), dict(family=fam, descriptor=list(desc), design=design), detail)
    ctx.sample(dict(descriptor=items[0], design=f8_names.design(items[0])[1]))
    ctx.sample(dict(descriptor=items[len(items) // 2]))
    ctx.assume("a clash may be resolved by a fresh name or by raising; only capture / shorting / replacement is a violation")


def replay(body):
    d = body["case"]["descriptor"]
    r = _one((d[0], d[1], tuple(d[2]), d[3], d[4]))
    print("replay:", r[1], r[2])
    return 0 if r[1] in ("ok", "raised", "skip") else 1
