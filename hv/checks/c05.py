"""
C05 — names invented during elaboration never capture the designer's names (engine E1 with adversarial names).

Family F8: every naming rule x adversary kind x subset of {N, N_, N__} x declaration order.  Oracle: either an
exception, or a package in which every designer signal / instance is present under its own name and width, that is
well-formed, and whose leaf-level net partition equals the reference semantics (so nothing was shorted or replaced).
"""

import importlib
from .. import refsem, observe, wf as wfmod
from ..core import short_exc
from ..families import f8_names


def designer_objects_present(design, pkg):
    top = [m for m in pkg.modules if m.name.split(".")[-1] == "Top"]
    if len(top) != 1:
        return f"top module not found among {[m.name for m in pkg.modules]}"
    top = top[0]
    sigs = {s.name: s.width for s in top.signals}
    ports = {p.signal for p in top.ports}
    insts = {i.name: i for i in top.instances}
    for d in design["modules"]["Top"]["decls"]:
        if d[0] in ("sig", "port"):
            if sigs.get(d[1]) != d[2]:
                return f"designer signal {d[1]!r} (width {d[2]}) is {sigs.get(d[1])!r} in the package"
            if (d[0] == "port") != (d[1] in ports):
                return f"designer {'port' if d[0]=='port' else 'signal'} {d[1]!r} changed visibility"
        elif d[0] == "inst":
            if d[1] not in insts:
                return f"designer instance {d[1]!r} missing from the package"
            i = insts[d[1]]
            tgt = i.module.local.split(".")[-1] if i.module.WhichOneof("to") == "local" else i.module.external.name
            want = d[2][1] if d[2][0] in ("mod", "ext") else None
            if want and tgt != want:
                return f"designer instance {d[1]!r} now instantiates {tgt!r}, not {want!r}"
    return None


def port_counts(design, pkg):
    """Every module keeps one port per declared scalar port and per leaf member of its bundle-valued ports."""
    def leaves(bn):
        bd = design["bundles"][bn]
        return len(bd["sigs"]) + sum(leaves(sub[1]) for sub in bd["subs"])

    for mn, md in design["modules"].items():
        want = sum(1 if d[0] == "port" else leaves(d[2]) if d[0] == "bport" else 0 for d in md["decls"])
        pm = [m for m in pkg.modules if m.name.split(".")[-1] == mn]
        if len(pm) == 1 and len(pm[0].ports) != want:
            return f"module {mn} declares {want} ports (scalar ports + leaf members of its bundle ports); the package gives it {[p.signal for p in pm[0].ports]}"
    return None


def _one(desc):
    import hdl21 as h
    from ..build import build

    fam, design = f8_names.design(desc)
    try:
        rdev, rpart = refsem.R(design)
    except refsem.Invalid as e:
        return fam, "skip", None, None
    try:
        pkg = h.to_proto(build(design).top)
    except Exception as e:
        return fam, "raised", short_exc(e), None
    bad = designer_objects_present(design, pkg)
    if bad:
        return fam, "captured", bad, design
    bad = port_counts(design, pkg)
    if bad:
        return fam, "captured", bad, design
    probs = wfmod.wf(pkg)
    if probs:
        return fam, "ill_formed", probs[0], design
    try:
        odev, opart = observe.O_pkg(pkg, design)
    except observe.Malformed as e:
        return fam, "malformed", str(e), design
    dd = observe.devices_agree(rdev, odev)
    if dd:
        return fam, "devices", dd, design
    if opart != rpart:
        return fam, "partition", observe.partition_diff(rpart, opart), design
    return fam, "ok", None, None


def _instbundle(item):
    """Instance bundles over a bundle whose member names are underscore variants of one another (x, x_, x__), next to
    designer instances / signals named like the element names `pr_<member>` the elaborator invents: the invented names
    must also stay clear of one another.  Either an exception, or a package with one instance per member and per
    designer instance, all under different names, each member's net on an element of its own, the designer's intact."""
    import hdl21 as h

    members, adv, advkind, order = item
    tri = h.Bundle(name="Tri")
    for m_ in members:
        tri.add(h.Signal(name=m_))
    grp = h.InstanceBundleType(name="Grp", bundle=tri)
    leaf = h.Module(name="Leaf")
    leaf.a, leaf.c = h.Port(), h.Port()
    leaf.r = h.R(r=1)(p=leaf.a, n=leaf.c)
    top = h.Module(name="Top")
    top.vss = h.Signal()
    top.t = tri()

    def advs():
        for k, nm in enumerate(adv):
            top.add(h.Signal(name=f"mine{k}"))
            if advkind == "inst":
                top.add(leaf(a=top.get(f"mine{k}"), c=top.vss), name=nm)
            else:
                top.add(h.Signal(name=nm))
                top.add(leaf(a=top.get(nm), c=top.get(f"mine{k}")), name=f"user{k}")

    try:
        if order == "before":
            advs()
        top.pr = grp(leaf)(a=top.t, c=top.vss)
        if order == "after":
            advs()
        pkg = h.to_proto(top)
    except Exception as e:
        return "raised", short_exc(e)
    probs = wfmod.wf(pkg)
    if probs:
        return "ill_formed", probs[0]
    pt = [m for m in pkg.modules if m.name.split(".")[-1] == "Top"][0]
    insts = {}
    for i in pt.instances:
        if i.name in insts:
            return "captured", f"two instances named {i.name!r}"
        insts[i.name] = {c.portname: c.target.sig for c in i.connections}
    if len(insts) != len(members) + len(adv):
        return "captured", f"{len(members)} members and {len(adv)} designer instances, but the package has instances {sorted(insts)}"
    sigs = {s_.name for s_ in pt.signals}
    for k, nm in enumerate(adv):
        if advkind == "inst":
            if insts.get(nm, {}).get("a") != f"mine{k}":
                return "captured", f"designer instance {nm!r} should be on net mine{k}: {insts.get(nm)}"
        else:
            if nm not in sigs or insts.get(f"user{k}") != {"a": nm, "c": f"mine{k}"}:
                return "captured", f"designer signal {nm!r} / its user changed: {insts.get(f'user{k}')}"
    user = set(adv) if advkind == "inst" else {f"user{k}" for k in range(len(adv))}
    driven = sorted(c.get("a") for n_, c in insts.items() if n_ not in user)
    if len(set(driven)) != len(members) or any(c.get("c") != "vss" for n_, c in insts.items() if n_ not in user):
        return "captured", f"each member net must feed an element of its own; the elements' `a` ports are on {driven}"
    return "ok", None


def instbundle_items():
    import itertools

    names = ("x", "x_", "x__")
    out = []
    for r in (2, 3):
        for members in itertools.combinations(names, r):
            for ar in (0, 1, 2, 3):
                for adv in itertools.combinations(tuple("pr_" + n for n in names) + ("pr_x___",), ar):
                    for advkind in ("inst", "sig"):
                        for order in ("before", "after"):
                            if ar == 0 and (advkind, order) != ("inst", "before"):
                                continue
                            out.append((members, adv, advkind, order))
    return out


def run(ctx):
    for it in instbundle_items():
        status, detail = _instbundle(it)
        ctx.count(states=1, transitions=3, traces_validated_against_impl=1)
        ctx.fam("instance_bundle_members", **{status: 1})
        ctx.outcome(status + ":instance_bundle:" + it[2])
        if status not in ("ok", "raised"):
            ctx.violation(dict(rule="instance_bundle_members", adversary=it[2], kind=status), dict(instbundle=[list(it[0]), list(it[1]), it[2], it[3]]), detail)
    items = f8_names.items(ctx.tier)
    res = ctx.pmap(_one, items)
    for desc, (fam, status, detail, design) in zip(items, res):
        rule, kind = fam.split("/")[1:3]
        if status == "skip":
            ctx.fam(rule, invalid_by_reference=1)
            continue
        ctx.count(states=1, transitions=3, traces_validated_against_impl=1)
        ctx.fam(rule, **{status: 1})
        ctx.outcome(status + ":" + rule + ":" + kind)
        if status in ("ok", "raised"):
            continue
        ctx.violation(dict(rule=rule, adversary=kind, kind=status), dict(family=fam, descriptor=list(desc), design=design), detail)
    ctx.sample(dict(descriptor=items[0], design=f8_names.design(items[0])[1]))
    ctx.sample(dict(descriptor=items[len(items) // 2]))
    ctx.assume("a clash may be resolved by a fresh name or by raising; only capture / shorting / replacement is a violation")


def replay(body):
    if "instbundle" in body["case"]:
        z = body["case"]["instbundle"]
        r = _instbundle((tuple(z[0]), tuple(z[1]), z[2], z[3]))
        print("replay:", r)
        return 0 if r[0] in ("ok", "raised") else 1
    d = body["case"]["descriptor"]
    r = _one((d[0], d[1], tuple(d[2]), d[3], d[4]))
    print("replay:", r[1], r[2])
    return 0 if r[1] in ("ok", "raised", "skip") else 1
