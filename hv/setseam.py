"""
Import-time seam for C12: every set *display* `{a, b}` and set *comprehension* `{x for ...}` in the hdl21 sources is
compiled as `set([a, b])` / `set(x for ...)`, every `a - b`, `a | b`, `a & b`, `a ^ b` as `__hv_setop__(op, a, b)` (the usual result, but a
plain hash set - from dict-view or set algebra - comes back as a PermSet), and the name `set` is bound to PermSet in each hdl21 module *before* the
module body runs.  Together with hv/permset.py this puts every hash set hdl21 creates - by call, display or
comprehension, at import time or later - under the explorer's control.  The transformation preserves semantics (a set
built from the same elements); it is applied in memory to /repo's current sources, nothing is written back, and
byte-code caches are bypassed.  `STATS` records what was rewritten, for the evidence file.
"""

import ast, sys, importlib.abc, importlib.machinery
from .permset import PermSet, own_setop

STATS = {"modules": 0, "set_displays": 0, "set_comprehensions": 0, "set_algebra_sites": 0, "frozenset_calls": 0}
PREFIXES = ("hdl21",)


class _T(ast.NodeTransformer):
    def visit_Set(self, node):
        self.generic_visit(node)
        STATS["set_displays"] += 1
        return ast.copy_location(ast.Call(func=ast.Name(id="set", ctx=ast.Load()), args=[ast.List(elts=node.elts, ctx=ast.Load())], keywords=[]), node)

    def visit_SetComp(self, node):
        self.generic_visit(node)
        STATS["set_comprehensions"] += 1
        gen = ast.GeneratorExp(elt=node.elt, generators=node.generators)
        return ast.copy_location(ast.Call(func=ast.Name(id="set", ctx=ast.Load()), args=[gen], keywords=[]), node)

    def visit_BinOp(self, node):
        self.generic_visit(node)
        name = {ast.Sub: "sub", ast.BitOr: "or", ast.BitAnd: "and", ast.BitXor: "xor"}.get(type(node.op))
        if name is None:
            return node
        STATS["set_algebra_sites"] = STATS.get("set_algebra_sites", 0) + 1
        return ast.copy_location(ast.Call(func=ast.Name(id="__hv_setop__", ctx=ast.Load()), args=[ast.Constant(value=name), node.left, node.right], keywords=[]), node)

    def visit_Call(self, node):
        self.generic_visit(node)
        if isinstance(node.func, ast.Name) and node.func.id == "frozenset":
            STATS["frozenset_calls"] += 1  # reported, not owned: iteration order of a frozenset stays hash order
        return node


class _Loader(importlib.machinery.SourceFileLoader):
    def get_code(self, fullname):  # never the cached byte-code: always the transformed current source
        path = self.get_filename(fullname)
        return self.source_to_code(self.get_data(path), path)

    def source_to_code(self, data, path, *, _optimize=-1):
        tree = _T().visit(ast.parse(data, filename=path))
        ast.fix_missing_locations(tree)
        STATS["modules"] += 1
        return compile(tree, path, "exec", dont_inherit=True)

    def exec_module(self, module):
        module.__dict__["set"] = PermSet
        module.__dict__["__hv_setop__"] = own_setop
        super().exec_module(module)


class _Finder(importlib.abc.MetaPathFinder):
    def find_spec(self, fullname, path, target=None):
        root = fullname.split(".")[0]
        if root not in PREFIXES or ".tests" in fullname:
            return None
        spec = importlib.machinery.PathFinder.find_spec(fullname, path)
        if spec is None or not isinstance(spec.loader, importlib.machinery.SourceFileLoader):
            return spec
        spec.loader = _Loader(spec.loader.name, spec.loader.path)
        return spec


def install():
    if any(m == "hdl21" or m.startswith("hdl21.") for m in sys.modules):
        raise RuntimeError("hv.setseam.install() must run before hdl21 is imported")
    if not any(isinstance(f, _Finder) for f in sys.meta_path):
        sys.meta_path.insert(0, _Finder())
