"""
Shared infrastructure: run context, worker pool, evidence writer, violation / known-finding reporting.

Every check module exposes `run(ctx) -> None` and reports through `ctx`:
  ctx.count(states=…, transitions=…, …)   accumulate coverage numbers
  ctx.sample(case)                         remember a few explored cases verbatim
  ctx.violation(sig, case, detail)         a property violation (matched against known_findings.json)
  ctx.pmap(fn, items)                      ordered parallel map over 16 recycled worker processes
"""

import os, sys, json, time, hashlib, traceback, multiprocessing as mp
from pathlib import Path

ROOT = Path(__file__).resolve().parent.parent
NPROC = int(os.environ.get("VERIF_NPROC", "16"))


def jdump(obj) -> str:
    return json.dumps(obj, sort_keys=True, default=_jdefault)


def _jdefault(o):
    if isinstance(o, (set, frozenset)):
        return sorted((_jdefault(x) if not isinstance(x, (str, int, float, list, tuple)) else x for x in o), key=repr)
    if isinstance(o, tuple):
        return list(o)
    if isinstance(o, bytes):
        return o.hex()
    return repr(o)


def sha(obj) -> str:
    return hashlib.sha1(jdump(obj).encode()).hexdigest()[:16]


class Findings:
    """known_findings.json: committed, read-only at run time."""

    def __init__(self):
        p = ROOT / "known_findings.json"
        self.entries = json.loads(p.read_text())["findings"] if p.exists() else []

    def match(self, prop: str, sig: dict):
        """An *open* finding matches when every key of its `match` dict equals the violation signature's."""
        for e in self.entries:
            if e.get("property") != prop or e.get("status") != "open":
                continue
            m = e.get("match", {})
            if m and all(sig.get(k) == v for k, v in m.items()):
                return e
        return None


class WorkerError:
    """An exception that escaped a worker function: the oracle / harness code itself failed on what the library did."""

    def __init__(self, item, tb):
        self.item, self.tb = item, tb


class WorkerFailures(Exception):
    pass


class _Safe:
    def __init__(self, fn):
        self.fn = fn

    def __call__(self, x):
        try:
            return self.fn(x)
        except BaseException as e:  # noqa
            return WorkerError(repr(x)[:2000], traceback.format_exc()[-3000:])


class Ctx:
    def __init__(self, prop: str, tier: str, seed: int):
        self.prop, self.tier, self.seed = prop, tier, seed
        self.quick = tier == "quick"
        self.t0 = time.time()
        self.cov = dict(states=0, transitions=0, traces_validated_against_impl=0)
        self.extra = {}
        self.samples = []
        self.families = {}
        self.outcomes = set()
        self.violations = []  # (sig, path)
        self.known = {}  # finding-what -> count
        self.assumptions = []
        self.caps = []
        self.exhaustive = True
        self.findings = Findings()
        self.max_report = 25

    # ---- coverage ----
    def count(self, **kw):
        for k, v in kw.items():
            self.cov[k] = self.cov.get(k, 0) + v

    def fam(self, name, **kw):
        d = self.families.setdefault(name, {})
        for k, v in kw.items():
            d[k] = d.get(k, 0) + v

    def sample(self, case, limit=6):
        if len(self.samples) < limit:
            self.samples.append(case)

    def outcome(self, o):
        if len(self.outcomes) < 100000:
            self.outcomes.add(o if isinstance(o, (str, int)) else sha(o))

    def cap(self, what):
        self.caps.append(what)
        self.exhaustive = False

    def assume(self, *what):
        for w in what:
            if w not in self.assumptions:
                self.assumptions.append(w)

    # ---- violations ----
    def violation(self, sig: dict, case, detail=None):
        """Report a violation. `sig` is the narrow signature matched against known findings."""
        e = self.findings.match(self.prop, sig)
        if e is not None:
            w = e["what"]
            self.known[w] = self.known.get(w, 0) + 1
            return False
        d = ROOT / "replays" / self.prop
        d.mkdir(parents=True, exist_ok=True)
        body = dict(property=self.prop, signature=sig, case=case, detail=detail)
        path = d / (sha(body) + ".json")
        if len(self.violations) < int(os.environ.get("VERIF_REPLAY_CAP", "400")):
            path.write_text(json.dumps(body, indent=1, default=_jdefault))
        self.violations.append((sig, str(path)))
        return True

    # ---- parallel map ----
    def pmap(self, fn, items, chunk=None, recycle=4):
        """Ordered map over worker processes (fork). Workers are recycled every `recycle` chunks because the
        library's per-pass caches keep every module ever elaborated."""
        items = list(items)
        if not items:
            return []
        fn = _Safe(fn)
        res = self._pmap(fn, items, chunk, recycle)
        errs = [r for r in res if isinstance(r, WorkerError)]
        if errs:
            # Not a verdict of an oracle, but not silence either: on the unchanged tree no worker raises, so an exception
            # escaping the checking code means the library handed it something it could not even read.
            for e in errs[:20]:
                last = e.tb.strip().splitlines()[-1][:200]
                self.violation(dict(kind="checker_exception", exc=last.split(":")[0]), dict(item=e.item), e.tb)
            raise WorkerFailures(f"{len(errs)} worker exception(s), first: {errs[0].tb.strip().splitlines()[-1][:300]}")
        return res

    def _pmap(self, fn, items, chunk, recycle):
        if NPROC <= 1 or len(items) < 8:
            return [fn(x) for x in items]
        if chunk is None:
            chunk = max(1, min(400, len(items) // (NPROC * 4) or 1))
        import hdl21, hv.build  # noqa: import once in the parent so forked workers start warm
        ctxm = mp.get_context("fork")
        with ctxm.Pool(NPROC, maxtasksperchild=recycle) as pool:
            return list(pool.imap(fn, items, chunksize=chunk))

    # ---- finish ----
    def finish(self):
        wall = time.time() - self.t0
        cov = dict(self.cov)
        cov["samples"] = self.samples or ["(no sample recorded)"]
        cov["exhaustive"] = bool(self.exhaustive and not self.caps)
        cov["families"] = self.families
        cov["distinct_outcomes"] = len(self.outcomes)
        cov["caps_hit"] = self.caps
        cov["known_findings_seen"] = self.known
        cov.update(self.extra)
        cov["states"] = max(1, int(cov.get("states", 0)))
        cov["transitions"] = max(1, int(cov.get("transitions", 0)))
        ev = dict(
            property_id=self.prop,
            tier=self.tier,
            seed=self.seed,
            level="model_checking",
            coverage=cov,
            assumptions=self.assumptions,
            wall_s=round(wall, 2),
            violations=len(self.violations),
        )
        (ROOT / "evidence").mkdir(exist_ok=True)
        (ROOT / "evidence" / f"{self.prop}.json").write_text(json.dumps(ev, indent=1, default=_jdefault) + "\n")
        for w, n in sorted(self.known.items()):
            print(f"KNOWN-FINDING: property={self.prop} {w} (x{n})")
        seen = set()
        for sig, path in self.violations:
            k = jdump(sig)
            if k in seen:
                continue
            seen.add(k)
            if len(seen) <= self.max_report:
                print(f"VIOLATION property={self.prop} replay={path}  # {jdump(sig)[:300]}")
        print(
            f"[{self.prop}] tier={self.tier} seed={self.seed} states={cov['states']} transitions={cov['transitions']} "
            f"traces={cov['traces_validated_against_impl']} outcomes={cov['distinct_outcomes']} exhaustive={cov['exhaustive']} "
            f"violations={len(self.violations)} known={sum(self.known.values())} wall={wall:.1f}s"
        )
        return 1 if self.violations else 0


def short_exc(e: BaseException) -> str:
    s = f"{type(e).__name__}: {e}"
    return s.strip().splitlines()[-1][:300] if s.strip() else type(e).__name__
