"""
wf(pkg): the well-formedness predicate of C06 on a vlsir.circuit.Package, stated on the package alone.
Returns a list of problems (empty = well-formed).  No hdl21 import.
"""

from .observe import VLSIR_PRIMS, HDL21_PRIMS


def target_width(t, sigs, probs, where):
    w = t.WhichOneof("stype")
    if w == "sig":
        if t.sig not in sigs:
            probs.append(f"{where}: connection names undeclared signal {t.sig!r}")
            return None
        return sigs[t.sig]
    if w == "slice":
        s = t.slice
        if s.signal not in sigs:
            probs.append(f"{where}: slice names undeclared signal {s.signal!r}")
            return None
        if not (0 <= s.bot <= s.top < sigs[s.signal]):
            probs.append(f"{where}: slice {s.signal}[{s.top}:{s.bot}] outside width {sigs[s.signal]}")
            return None
        return s.top - s.bot + 1
    if w == "concat":
        tot = 0
        if not t.concat.parts:
            probs.append(f"{where}: empty concatenation")
            return None
        for p in t.concat.parts:
            pw = target_width(p, sigs, probs, where)
            if pw is None:
                return None
            tot += pw
        return tot
    probs.append(f"{where}: empty connection target")
    return None


def wf(pkg):
    probs = []
    seen_mods = {}
    exts = {}
    for e in pkg.ext_modules:
        key = (e.name.domain, e.name.name)
        if key in exts:
            probs.append(f"external module {key} declared twice")
        esigs = {}
        for s in e.signals:
            if s.name in esigs:
                probs.append(f"external module {key}: duplicate signal {s.name}")
            esigs[s.name] = s.width
        pn = [p.signal for p in e.ports]
        if len(set(pn)) != len(pn):
            probs.append(f"external module {key}: duplicate port")
        for p in pn:
            if p not in esigs:
                probs.append(f"external module {key}: port {p} names no declared signal")
        exts[key] = {p: esigs.get(p) for p in pn}
    for m in pkg.modules:
        if not m.name:
            probs.append("module without a name")
        if m.name in seen_mods:
            probs.append(f"module name {m.name!r} not unique")
        sigs = {}
        for s in m.signals:
            if s.name in sigs:
                probs.append(f"{m.name}: duplicate signal {s.name!r}")
            if s.width < 1:
                probs.append(f"{m.name}: signal {s.name!r} has width {s.width}")
            sigs[s.name] = s.width
        pn = [p.signal for p in m.ports]
        if len(set(pn)) != len(pn):
            probs.append(f"{m.name}: duplicate port")
        for p in pn:
            if p not in sigs:
                probs.append(f"{m.name}: port {p!r} names no declared signal")
        inames = set()
        for i in m.instances:
            where = f"{m.name}.{i.name}"
            if not i.name:
                probs.append(f"{m.name}: instance without a name")
            if i.name in inames:
                probs.append(f"{m.name}: duplicate instance name {i.name!r}")
            inames.add(i.name)
            which = i.module.WhichOneof("to")
            ports = None
            if which == "local":
                if i.module.local not in seen_mods:
                    probs.append(f"{where}: refers to module {i.module.local!r} which is not defined earlier in the package")
                else:
                    ports = seen_mods[i.module.local]
                if len(i.parameters):
                    probs.append(f"{where}: parameters on an instance of a package module")
            elif which == "external":
                q = i.module.external
                if q.domain == "vlsir.primitives" and q.name in VLSIR_PRIMS:
                    ports = {p: 1 for p in VLSIR_PRIMS[q.name][1]}
                elif q.domain == "hdl21.primitives" and q.name in HDL21_PRIMS:
                    ports = {p: 1 for p in HDL21_PRIMS[q.name][1]}
                elif (q.domain, q.name) in exts:
                    ports = exts[(q.domain, q.name)]
                else:
                    probs.append(f"{where}: refers to {q.domain}.{q.name}, neither a known primitive nor a declared external module")
            else:
                probs.append(f"{where}: no module reference")
            pnames = [p.name for p in i.parameters]
            if len(set(pnames)) != len(pnames):
                probs.append(f"{where}: duplicate parameter")
            connected = set()
            for c in i.connections:
                if c.portname in connected:
                    probs.append(f"{where}: port {c.portname!r} connected twice")
                connected.add(c.portname)
                w = target_width(c.target, sigs, probs, where + "." + c.portname)
                if ports is not None:
                    if c.portname not in ports:
                        probs.append(f"{where}: connection to non-existent port {c.portname!r}")
                    elif w is not None and ports[c.portname] is not None and w != ports[c.portname]:
                        probs.append(f"{where}.{c.portname}: connection width {w} != port width {ports[c.portname]}")
            if ports is not None:
                for p in ports:
                    if p not in connected:
                        probs.append(f"{where}: port {p!r} not connected")
        seen_mods[m.name] = {p: sigs.get(p) for p in pn}
    return probs


def accepts(pkg, netlist=True, physical_ok=False):
    """from_proto and the spice / spectre netlisters must accept the package.  Packages containing *uncompiled physical*
    primitives are, by documented design, rejected by the netlisters ('compile to a target technology')."""
    import io, hdl21 as h, vlsirtools

    probs = []
    try:
        h.from_proto(pkg)
    except Exception as e:
        probs.append(f"from_proto rejects the package: {type(e).__name__}: {str(e)[:200]}")
    has_physical = any(i.module.WhichOneof("to") == "external" and i.module.external.domain == "hdl21.primitives" for m in pkg.modules for i in m.instances)
    if netlist and not has_physical:
        for fmt in ("spice", "spectre"):
            try:
                vlsirtools.netlist(pkg=pkg, dest=io.StringIO(), fmt=fmt)
            except Exception as e:
                probs.append(f"{fmt} netlister rejects the package: {type(e).__name__}: {str(e)[:200]}")
    return probs
