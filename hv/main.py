import sys, os, argparse, importlib, json, traceback
from .core import Ctx, ROOT


def main():
    ap = argparse.ArgumentParser()
    ap.add_argument("prop")
    ap.add_argument("--tier", default=os.environ.get("VERIF_TIER", "quick"), choices=["quick", "thorough"])
    ap.add_argument("--replay", default=None)
    a = ap.parse_args()
    seed = int(os.environ.get("VERIF_SEED", "0") or 0)
    prop = a.prop.upper()
    if prop == "C12":
        from . import setseam  # must precede the first import of hdl21: set displays / comprehensions become explorable

        setseam.install()
    mod = importlib.import_module(f"hv.checks.{prop.lower()}")
    if prop == "SELFTEST":
        sys.exit(mod.selftest())
    if a.replay:
        body = json.loads(open(a.replay).read())
        rc = mod.replay(body)
        sys.exit(rc)
    ctx = Ctx(prop, a.tier, seed)
    from .core import WorkerFailures

    try:
        mod.run(ctx)
    except WorkerFailures as e:
        print(f"[{prop}] checking code failed on what the library returned: {e}")
        ctx.exhaustive = False
        ctx.caps.append("run aborted after worker exceptions")
        sys.exit(ctx.finish())
    except Exception:
        traceback.print_exc()
        print(f"[{prop}] INTERNAL ERROR in the checking machinery (not a property verdict)")
        sys.exit(2)
    sys.exit(ctx.finish())


if __name__ == "__main__":
    main()
