"""
build(design) -> real hdl21 objects, through the public API only.

Three construction styles per module ("built procedurally, class-style or inside generators"):
  proc  : m = h.Module(name=…); setattr / add; connections by attribute assignment  `inst.port = X`
  class : h.module(<class>) over an ordered class dict; connections by call           `inst(port=X)`
  gen   : body inside an @h.generator function; connections by                        `inst.connect(port, X)`
"""

import hdl21 as h
from hdl21 import primitives as hp

PRIMS = {
    "R": hp.R, "C": hp.C, "L": hp.L, "Vdc": hp.Vdc, "Idc": hp.Idc, "Vpulse": hp.Vpulse, "Vsin": hp.Vsin,
    "Vcvs": hp.Vcvs, "Vccs": hp.Vccs, "Ccvs": hp.Ccvs, "Cccs": hp.Cccs,
    "Mos": hp.Mos, "Nmos": hp.Nmos, "Pmos": hp.Pmos, "Diode": hp.Diode, "Res2": hp.PhysicalResistor,
    "Cap2": hp.PhysicalCapacitor, "Res3": hp.ThreeTerminalResistor, "Cap3": hp.ThreeTerminalCapacitor,
    "Npn": hp.Npn, "Pnp": hp.Pnp, "Short": hp.PhysicalShort, "Bipolar": hp.Bipolar,
}

DIRS = {"none": h.PortDir.NONE, "in": h.PortDir.INPUT, "out": h.PortDir.OUTPUT, "inout": h.PortDir.INOUT}


class Built:
    """Everything build() created, by spec name."""

    def __init__(self):
        self.bundles = {}
        self.exts = {}
        self.modules = {}
        self.objs = {}  # (mname, attrname) -> hdl21 object
        self.roles = {}
        self._mult = {}

    @property
    def top(self):
        return self._top


def build_bundle(design, bname, built):
    if bname in built.bundles:
        return built.bundles[bname]
    bd = design["bundles"][bname]
    if bd.get("builtin") == "Diff":
        built.bundles[bname] = h.Diff
        return h.Diff
    b = h.Bundle(name=bname)
    roles = bd.get("roles")
    if roles:
        from hdl21.role import Role, RoleSet

        b.roles = RoleSet.from_dict({r: Role() for r in roles}) if hasattr(RoleSet, "from_dict") else None
        built.roles[bname] = b.roles
    for s in bd["sigs"]:
        name, width, kind = s[0], s[1], s[2] if len(s) > 2 else "sig"
        if kind == "sig":
            sig = h.Signal(width=width)
        elif kind in ("in", "out", "inout"):
            sig = h.Signal(width=width, vis=h.signal.Visibility.PORT, direction=DIRS[kind])
        elif kind == "port":
            sig = h.Port(width=width)
        elif isinstance(kind, (list, tuple)) and kind[0] == "role":
            rs = b.roles
            sig = h.Signal(width=width, src=getattr(rs, kind[1]) if kind[1] else None, dest=getattr(rs, kind[2]) if kind[2] else None)
        else:
            raise ValueError(kind)
        setattr(b, name, sig)
    for sub in bd.get("subs", []):
        sb = build_bundle(design, sub[1], built)
        how = sub[3] if len(sub) > 3 else "ctor"
        if sub[2] and how == "fn":
            inst = h.flipped(sb())
        else:
            inst = sb(flipped=bool(sub[2]))
        setattr(b, sub[0], inst)
    built.bundles[bname] = b
    return b


def build_ext(design, ename, built):
    if ename in built.exts:
        return built.exts[ename]
    ed = design["exts"][ename]
    ports = [h.Port(name=p[0], width=p[1]) if len(p) < 3 or p[2] == "none" else h.Signal(name=p[0], width=p[1], vis=h.signal.Visibility.PORT, direction=DIRS[p[2]]) for p in ed["ports"]]
    kw = {}
    if ed.get("spicetype"):
        kw["spicetype"] = getattr(h.external_module.SpiceType, ed["spicetype"])
    e = h.ExternalModule(name=ename, port_list=ports, desc=ed.get("desc", "leaf"), domain=ed.get("domain", "hv"), paramtype=dict, **kw)
    built.exts[ename] = e
    return e


def target_of(design, target, built):
    if target[0] == "mod":
        return built.modules[target[1]]
    if target[0] == "prim":
        return PRIMS[target[1]](**conv_params(target[2]))
    if target[0] == "ext":
        return build_ext(design, target[1], built)(dict(conv_params(target[2])))
    raise ValueError(target)


def conv_params(p):
    """Parameter values are given as they are, except ("pre", mantissa, exponent): a prefixed number."""
    from decimal import Decimal
    from hdl21.prefix import Prefix

    return {k: (h.Prefixed(number=Decimal(v[1]), prefix=Prefix.from_exp(v[2])) if isinstance(v, tuple) and v and v[0] == "pre" else v) for k, v in dict(p).items()}


def mk_expr(e, ns, ncs, design, built):
    """Expr -> hdl21 connectable, in the namespace `ns` (name -> object) of the module being built."""
    k = e[0]
    if k == "sig" or k == "b":
        return ns[e[1]]
    if k == "idx":
        return mk_expr(e[1], ns, ncs, design, built)[e[2]]
    if k == "rng":
        return mk_expr(e[1], ns, ncs, design, built)[slice(e[2], e[3], e[4])]
    if k == "cat":
        return h.Concat(*[mk_expr(p, ns, ncs, design, built) for p in e[1]])
    if k == "pref":
        return getattr(ns[e[1]], e[2])
    if k == "nc":
        if e[1] not in ncs:
            ncs[e[1]] = h.NoConn(name=e[2]) if e[2] else h.NoConn()
        return ncs[e[1]]
    if k == "bref":
        o = ns[e[1]]
        for seg in e[2]:
            o = getattr(o, seg)
        return o
    if k in ("osig", "ob", "opref"):
        # orphans: objects owned by no module, or by another module
        key = ("orphan", repr(e))
        if key not in ncs:
            if k == "osig":
                o = h.Signal(width=e[1])
            elif k == "ob":
                o = build_bundle(design, e[1], built)()
            else:
                o = h.Instance(of=target_of(design, e[1], built))
            if e[-1] == "other":
                other = ncs.setdefault(("other_module",), h.Module(name="OtherOwner"))
                other.add(o, name=f"orph{len(ncs)}")
            ncs[key] = o
        o = ncs[key]
        return getattr(o, e[2]) if k == "opref" else o
    if k == "anon":
        return h.AnonymousBundle(**{n: mk_expr(s, ns, ncs, design, built) for n, s in e[1]})
    if k == "dict":
        return {n: mk_expr(s, ns, ncs, design, built) for n, s in e[1]}
    raise ValueError(e)


def _mk_obj(design, d, built):
    kind = d[0]
    if kind == "port":
        if d[3] == "none":
            return h.Port(width=d[2])
        return h.Signal(width=d[2], vis=h.signal.Visibility.PORT, direction=DIRS[d[3]])
    if kind == "sig":
        return h.Signal(width=d[2])
    if kind == "bport":
        b = build_bundle(design, d[2], built)
        role = d[4] if len(d) > 4 else None
        kw = dict(port=True)
        if role:
            kw["role"] = getattr(b.roles, role)
        how = d[5] if len(d) > 5 else "ctor"
        if d[3] and how == "fn":
            return h.flipped(b(**kw))
        return b(flipped=bool(d[3]), **kw)
    if kind == "binst":
        b = build_bundle(design, d[2], built)
        via = d[3] if len(d) > 3 else "ctor"
        if via == "ctor":
            return b()
        if via == "flipped":
            return h.flipped(b())
        if via == "copy":
            import copy as _copy

            return _copy.copy(b())
        if via == "mult":  # one `n * B()` call per group, handed out in declaration order
            grp = (d[2], d[4])
            pool = built._mult.get(grp)
            if not pool:
                n = sum(1 for m in design["modules"].values() for x in m["decls"] if x[0] == "binst" and len(x) > 4 and x[3] == "mult" and (x[2], x[4]) == grp)
                pool = built._mult[grp] = list(n * b())
            return pool.pop(0)
        raise ValueError(via)
    if kind == "inst":
        return h.Instance(of=target_of(design, d[2], built))
    if kind == "array":
        return h.InstanceArray(of=target_of(design, d[2], built), n=d[3])
    if kind == "pair":
        return h.Pair(of=target_of(design, d[2], built))
    raise ValueError(d)


def _mult_arrays(design, mod, ns, built, ncs, place):
    """Arrays written as `n * Target(**conns)`: the connections are made on a scalar instance which is then multiplied
    (and stays behind, unnamed, in the back-references of whatever it was connected to)."""
    done = set()
    for d in mod["decls"]:
        if d[0] != "array":
            continue
        try:
            conns = {pname: mk_expr(e, ns, ncs, design, built) for pname, e in d[4]}
        except KeyError:
            # refers to an array declared later: that one is made the ordinary way
            o = _mk_obj(design, d, built)
        else:
            o = d[3] * target_of(design, d[2], built)(**conns)
            done.add(d[1])
        place(d[1], o)
        ns[d[1]] = o
    return done


def _connect_all(design, mod, ns, built, how, ncs=None, skip=()):
    ncs = {} if ncs is None else ncs
    for d in mod["decls"]:
        if d[0] not in ("inst", "array", "pair") or d[1] in skip:
            continue
        conns = d[3] if d[0] in ("inst", "pair") else d[4]
        inst = ns[d[1]]
        for pname, e in conns:
            x = mk_expr(e, ns, ncs, design, built)
            if how == "call":
                inst(**{pname: x})
            elif how == "setattr" and pname not in ("name", "of", "conns", "connect", "disconnect", "replace", "portref", "portrefs"):
                setattr(inst, pname, x)
            else:
                inst.connect(pname, x)


def build_module(design, mname, built):
    mod = design["modules"][mname]
    style = mod.get("style", "proc")
    name = mod.get("name")

    mult = mod.get("array_form") == "mult"

    def body_proc(m, how):
        ns = {}

        def place(nm, o):
            if mod.get("use_add"):
                o.name = nm
                m.add(o)
            else:
                setattr(m, nm, o)

        for d in mod["decls"]:
            if mult and d[0] == "array":
                continue
            o = _mk_obj(design, d, built)
            place(d[1], o)
            ns[d[1]] = o
        ncs = {}
        skip = _mult_arrays(design, mod, ns, built, ncs, place) if mult else ()
        _connect_all(design, mod, ns, built, how, ncs, skip)
        return ns

    if style == "proc":
        m = h.Module(name=name) if name else h.Module()
        ns = body_proc(m, "setattr")
    elif style == "class":
        ns = {}
        for d in mod["decls"]:
            if not (mult and d[0] == "array"):
                ns[d[1]] = _mk_obj(design, d, built)
        ncs = {}
        skip = _mult_arrays(design, mod, ns, built, ncs, lambda nm, o: None) if mult else ()
        _connect_all(design, mod, ns, built, "call", ncs, skip)
        ns = {d[1]: ns[d[1]] for d in mod["decls"]}  # declaration order, as written
        cls = type(name or "Anon", (), dict(ns))
        m = h.module(cls)
        if not name:
            m.name = None
    elif style == "gen":
        box = {}

        def genfunc(params: h.HasNoParams) -> h.Module:
            mm = h.Module()
            box["ns"] = body_proc(mm, "connect")
            return mm

        genfunc.__name__ = name or "AnonGen"
        g = h.generator(genfunc)
        m = g()
        ns = box["ns"]
    else:
        raise ValueError(style)
    built.modules[mname] = m
    for k, v in ns.items():
        built.objs[(mname, k)] = v
    for rm, rs in design.get("redeclare", []):
        if rm == mname:
            old = ns[rs]
            new = h.Signal(width=old.width, vis=old.vis, direction=old.direction)
            setattr(m, rs, new)  # a new object under the same name; the connections made so far keep the old one
    for rm, ra in design.get("restore", []):
        if rm == mname:
            m.add(ns[ra])  # the attribute, as it is, stored again under its own name
    for rd in design.get("reads", []):
        rm, ri, rp = rd[:3]
        how = rd[3] if len(rd) > 3 else "read"
        if rm == mname:
            ref = getattr(ns[ri], rp)  # a look at the port, nothing else
            if how == "slice":
                ref[0]
            elif how == "concat":
                h.Concat(ref, ref)
            elif how == "discarded":
                # an instance of the same cell, tied to the port by reference, which never becomes part of any module
                ns[ri].of(**{rp: ref})
    return m


def build(design) -> Built:
    built = Built()
    for b in design.get("bundles", {}):
        build_bundle(design, b, built)
    for mname in design["modules"]:
        build_module(design, mname, built)
    if design.get("steal"):
        # attributes of one module that are afterwards also added, as they are, to another module (which takes them over)
        thief = h.Module(name="ZZThief")
        for mname, attr in design["steal"]:
            thief.add(built.objs[(mname, attr)])
        built.thief = thief
    built._top = built.modules[design["top"]]
    return built
